/* Model of libc bsearch (glibc's algorithm) -- CBMC 6.11 ships no body for it.
 * Linked into CBMC queries only; the native replay uses the real libc. */
#ifndef REPLAY
#include <stddef.h>
void* bsearch(const void* key, const void* base, size_t nmemb, size_t size,
    int (*compar)(const void*, const void*)) {
    size_t l = 0, u = nmemb;
    while (l < u) {
        size_t idx = (l + u) / 2;
        const void* p = (const void*)((const char*)base + idx * size);
        int c = (*compar)(key, p);
        if (c < 0) u = idx;
        else if (c > 0) l = idx + 1;
        else return (void*)p;
    }
    return NULL;
}
#endif
