/* Nondeterministic dependency stubs, constrained only by the documented contract
 * of each injected function (include/polyseed.h, README "Dependency injection").
 * All nondeterminism is pre-drawn in struct dep_in (part of the harness input
 * struct), so a counterexample can be replayed natively.  Every call is logged.
 */
#ifndef VF_DEPS_H
#define VF_DEPS_H

#include "vf.h"
#include "polyseed.h"
#include "dependency.h"
#include "storage.h"
#include <string.h>
#include <stdlib.h>

#define DEP_MAX_ALLOC 3
#define DEP_MAX_MZ 12
#define DEP_MAX_KDF 2
#ifndef DEP_PW_COPY
#define DEP_PW_COPY 64          /* how many password bytes the KDF stub keeps for comparison */
#endif
#ifndef DEP_STR_MAX
#define DEP_STR_MAX 24          /* bound on strings the normaliser stubs return */
#endif

struct dep_in {
    uint8_t rnd[32];                       /* what the random source delivers     */
    uint8_t kdf_out[DEP_MAX_KDF][32];      /* what the KDF delivers, per call     */
    uint64_t now;                          /* what the clock returns              */
    bool alloc_fail[DEP_MAX_ALLOC];        /* does the k-th allocation fail       */
    uint8_t alloc_fill[DEP_MAX_ALLOC][sizeof(polyseed_data)]; /* fresh block contents */
    char norm_out[DEP_STR_MAX + 1];        /* what the normaliser returns         */
    size_t probe;                          /* position at which the decomposer stub looks at its input */
};

static struct dep_in DEPIN;

/* ---- logs ----------------------------------------------------------- */
static int L_rand_calls; static void* L_rand_ptr; static size_t L_rand_n;
static int L_time_calls;
static int L_kdf_calls;
static struct {
    const uint8_t* pw; size_t pwlen; uint8_t pw_copy[DEP_PW_COPY];
    const uint8_t* salt; size_t saltlen; uint8_t salt_copy[32];
    uint64_t iter; uint8_t* key; size_t keylen;
} L_kdf[DEP_MAX_KDF];
static int L_mz_calls;
static struct { void* p; size_t n; size_t objsize; size_t offset; bool heap; int seq; } L_mz[DEP_MAX_MZ];
static int L_alloc_calls; static int L_free_calls;
static struct { void* p; size_t n; bool live; int freed_times; int wiped_before_free; int free_seq; } L_blk[DEP_MAX_ALLOC];
static int L_foreign_free;      /* free() of something that is not a live ledger block */
static int L_nfc_calls, L_nfkd_calls;
static const char* L_nfc_in; static char* L_nfc_out;
#define DEP_IN_COPY 48
static char L_nfc_in_copy[DEP_IN_COPY];   /* first bytes of what the composer was given */
static char L_nfkd_in_copy[DEP_IN_COPY];  /* first bytes of what the decomposer was given */
static char L_nfkd_probe_byte;            /* (DEP_NFKD_PROBE) the byte found at DEPIN.probe */
static const char* L_nfkd_in; static char* L_nfkd_out;
static int L_seq;               /* global order of dependency calls */
static int L_last_other_seq;    /* order number of the last call that is not a wipe (dependency or harness-level stub) */
#define DEP_TICK() do { L_seq++; L_last_other_seq = L_seq; } while (0)
static int L_other_calls;       /* calls beyond the log capacity: always a failure */

static void dep_randbytes(void* result, size_t n) {
    L_rand_calls++; L_rand_ptr = result; L_rand_n = n; DEP_TICK();
    if (n > sizeof(DEPIN.rnd)) { L_other_calls++; n = sizeof(DEPIN.rnd); }
    memcpy(result, DEPIN.rnd, n);
}

static void dep_pbkdf2(const uint8_t* pw, size_t pwlen, const uint8_t* salt, size_t saltlen,
    uint64_t iterations, uint8_t* key, size_t keylen) {
    DEP_TICK();
    if (L_kdf_calls >= DEP_MAX_KDF) { L_other_calls++; return; }
    int k = L_kdf_calls++;
    L_kdf[k].pw = pw; L_kdf[k].pwlen = pwlen; L_kdf[k].salt = salt; L_kdf[k].saltlen = saltlen;
    L_kdf[k].iter = iterations; L_kdf[k].key = key; L_kdf[k].keylen = keylen;
    for (size_t i = 0; i < sizeof(L_kdf[k].pw_copy); ++i) L_kdf[k].pw_copy[i] = (i < pwlen) ? pw[i] : 0;
    for (size_t i = 0; i < sizeof(L_kdf[k].salt_copy); ++i) L_kdf[k].salt_copy[i] = (i < saltlen) ? salt[i] : 0;
    /* deterministic: equal argument values => equal output (harnesses that call
     * twice constrain kdf_out[1] == kdf_out[0] when the logged inputs agree) */
    for (size_t i = 0; i < keylen && i < 32; ++i) key[i] = DEPIN.kdf_out[k][i];
}

static void dep_memzero(void* const ptr, const size_t len) {
    L_seq++;
    if (L_mz_calls < DEP_MAX_MZ) {
        int k = L_mz_calls;
        L_mz[k].p = ptr; L_mz[k].n = len; L_mz[k].seq = L_seq;
#ifndef REPLAY
        L_mz[k].objsize = __CPROVER_OBJECT_SIZE(ptr);
        L_mz[k].offset = __CPROVER_POINTER_OFFSET(ptr);
        L_mz[k].heap = __CPROVER_DYNAMIC_OBJECT(ptr);
#endif
    } else {
        L_other_calls++;
    }
    L_mz_calls++;
    for (int b = 0; b < DEP_MAX_ALLOC; ++b)
        if (L_blk[b].live && L_blk[b].p == ptr && L_blk[b].n == len) L_blk[b].wiped_before_free = 1;
    memset(ptr, 0, len);
}

static void* dep_alloc(size_t n) {
    DEP_TICK();
    if (L_alloc_calls >= DEP_MAX_ALLOC) { L_other_calls++; return NULL; }
    int k = L_alloc_calls++;
    if (DEPIN.alloc_fail[k]) { L_blk[k].p = NULL; L_blk[k].n = n; L_blk[k].live = false; return NULL; }
    void* p = malloc(n);
#ifndef REPLAY
    __CPROVER_assume(p != NULL);
#endif
    /* freshly allocated memory has arbitrary contents */
    if (n <= sizeof(DEPIN.alloc_fill[k])) memcpy(p, DEPIN.alloc_fill[k], n);
    L_blk[k].p = p; L_blk[k].n = n; L_blk[k].live = true; L_blk[k].wiped_before_free = 0;
    return p;
}

static void dep_free(void* ptr) {
    L_seq++; L_free_calls++;
    for (int b = 0; b < DEP_MAX_ALLOC; ++b) {
        if (L_blk[b].p != NULL && L_blk[b].p == ptr && L_blk[b].live) {
            L_blk[b].live = false; L_blk[b].freed_times++; L_blk[b].free_seq = L_seq;
            /* was the whole block zero when it reached free? */
            bool zero = true;
            for (size_t i = 0; i < L_blk[b].n; ++i) if (((uint8_t*)ptr)[i] != 0) zero = false;
            if (!zero) L_blk[b].wiped_before_free = 0;
            free(ptr);
            return;
        }
    }
    L_foreign_free++;   /* NULL, not ours, or already freed */
}

static int dep_live_blocks(void) {
    int n = 0;
    for (int b = 0; b < DEP_MAX_ALLOC; ++b) if (L_blk[b].live) n++;
    return n;
}

static uint64_t dep_time(void) { DEP_TICK(); L_time_calls++; return DEPIN.now; }

static size_t dep_norm_write(polyseed_str norm) {
    size_t n = 0;
    while (n < DEP_STR_MAX && DEPIN.norm_out[n] != '\0') { norm[n] = DEPIN.norm_out[n]; n++; }
    norm[n] = '\0';
    return n;
}
static size_t dep_nfc(const char* str, polyseed_str norm) {
    DEP_TICK(); L_nfc_calls++; L_nfc_in = str; L_nfc_out = norm;
    { bool end_ = false; for (int i_ = 0; i_ < DEP_IN_COPY; ++i_) { if (!end_ && str[i_] == '\0') end_ = true; L_nfc_in_copy[i_] = end_ ? '\0' : str[i_]; } }
    return dep_norm_write(norm);
}
static size_t dep_nfkd(const char* str, polyseed_str norm) {
    DEP_TICK(); L_nfkd_calls++; L_nfkd_in = str; L_nfkd_out = norm;
#ifdef DEP_NFKD_PROBE
    /* the stub is inlined once per iteration of utf8_nfkd_lazy's loop: no loops here.
     * One byte at a symbolic position (harness: position <= length of the caller's
     * string) stands for "the whole string, terminator included, is what arrives" */
    L_nfkd_probe_byte = str[DEPIN.probe];
#else
    { bool end_ = false; for (int i_ = 0; i_ < DEP_IN_COPY; ++i_) { if (!end_ && str[i_] == '\0') end_ = true; L_nfkd_in_copy[i_] = end_ ? '\0' : str[i_]; } }
#endif
    return dep_norm_write(norm);
}

/* number of distinct objects of size n that were wiped as a whole (offset 0,
 * length = object size; object size and offset come from CBMC's pointer model,
 * natively only the length can be compared) through the injected memzero */
static int dep_wipes_whole_from(size_t n, int after_seq) {
    int c = 0;
    for (int k = 0; k < L_mz_calls && k < DEP_MAX_MZ; ++k) {
        if (L_mz[k].seq <= after_seq) continue;
#ifndef REPLAY
        if (L_mz[k].n == n && L_mz[k].objsize == n && L_mz[k].offset == 0) {
#else
        if (L_mz[k].n == n) {
#endif
            bool dup = false;
            for (int j = 0; j < k; ++j) if (L_mz[j].p == L_mz[k].p && L_mz[j].n == n) dup = true;
            if (!dup) c++;
        }
    }
    return c;
}
static int dep_wipes_whole(size_t n) { return dep_wipes_whole_from(n, 0); }

/* C16 obligations regenerated from the goto symbol table (c16_gen.h): every
 * automatic aggregate of >= 16 bytes declared in the API function (and in the
 * library functions that run inside it in this harness) is wiped as a whole
 * object; temporaries of the same size need as many distinct wipes          */
#define C16_MIN_SIZE 16
#define C16_CHECK(fn, msg) do { \
    static const size_t obl_[] = C16_OBL_##fn; \
    for (int a_ = 0; a_ < C16_N_##fn; ++a_) { \
        if (obl_[a_] < C16_MIN_SIZE) continue; \
        int need_ = 0; \
        for (int b_ = 0; b_ < C16_N_##fn; ++b_) if (obl_[b_] == obl_[a_]) need_++; \
        VASSERT(dep_wipes_whole(obl_[a_]) >= need_, msg); \
        /* ... and after the last call that could still have written to it: the \
         * temporaries stay live across every dependency / callee call */ \
        VASSERT(dep_wipes_whole_from(obl_[a_], L_last_other_seq) >= need_, "C16 temporaries are wiped after their last use (after the last dependency or callee call), not before"); \
    } } while (0)

/* forget the call log (used after an arbitrary *earlier* API call: harnesses with a
 * history prefix assert that the later call behaves as from a fresh library) */
static void dep_reset_logs(void) {
    L_rand_calls = 0; L_rand_ptr = NULL; L_rand_n = 0; L_time_calls = 0; L_kdf_calls = 0;
    L_mz_calls = 0; L_alloc_calls = 0; L_free_calls = 0; L_foreign_free = 0;
    L_nfc_calls = 0; L_nfkd_calls = 0; L_nfc_in = NULL; L_nfc_out = NULL; L_nfkd_in = NULL; L_nfkd_out = NULL;
    L_seq = 0; L_last_other_seq = 0;
    for (int b = 0; b < DEP_MAX_ALLOC; ++b) { L_blk[b].p = NULL; L_blk[b].n = 0; L_blk[b].live = false; L_blk[b].freed_times = 0; L_blk[b].wiped_before_free = 0; L_blk[b].free_seq = 0; }
}

static const polyseed_dependency DEP_TABLE = {
    .randbytes = dep_randbytes, .pbkdf2_sha256 = dep_pbkdf2, .memzero = dep_memzero,
    .u8_nfc = dep_nfc, .u8_nfkd = dep_nfkd, .time = dep_time, .alloc = dep_alloc, .free = dep_free,
};

/* install the stubs directly into the library's dependency table (the state
 * polyseed_inject would leave; polyseed_inject itself is verified in h_inject) */
static void dep_install(const struct dep_in* in) {
    DEPIN = *in;
    polyseed_deps = DEP_TABLE;
}

static bool dep_table_intact(void) {
    return polyseed_deps.randbytes == dep_randbytes && polyseed_deps.pbkdf2_sha256 == dep_pbkdf2
        && polyseed_deps.memzero == dep_memzero && polyseed_deps.u8_nfc == dep_nfc
        && polyseed_deps.u8_nfkd == dep_nfkd && polyseed_deps.time == dep_time
        && polyseed_deps.alloc == dep_alloc && polyseed_deps.free == dep_free;
}

#endif
