/* Encoding validation: the repository's own published vectors (tests/tests.c,
 * seed 1: 19 random bytes, clock Dec 2021, Monero, English phrase; KDF input hex
 * strings of seeds 1-3) pushed through BOTH the spec functions and the real
 * code, all inputs concrete (CBMC acts as an interpreter of the real units).
 * A mismatch means the spec or CBMC's model of the code misrepresents the
 * library -- no verdict of any other harness is trusted in that case.         */
#include "vf.h"
#include "spec.h"
#include "deps.h"
#include "gf.h"
#include "storage.h"
#include "lang.h"

static const uint8_t RAND1[19] = { 0xdd, 0x76, 0xe7, 0x35, 0x9a, 0x0d, 0xed, 0x37, 0xcd, 0x0f, 0xf0, 0xf3, 0xc8, 0x29, 0xa5, 0xae, 0x01, 0x67, 0xf3 };
static const char PHRASE_EN1[] = "raven tail swear infant grief assist regular lamp duck valid someone little harsh puppy airport language";
static const char* const WORDS_EN1[16] = { "raven", "tail", "swear", "infant", "grief", "assist", "regular", "lamp",
    "duck", "valid", "someone", "little", "harsh", "puppy", "airport", "language" };
static const uint8_t PW1[32] = { 0xdd, 0x76, 0xe7, 0x35, 0x9a, 0x0d, 0xed, 0x37, 0xcd, 0x0f, 0xf0, 0xf3, 0xc8, 0x29, 0xa5, 0xae, 0x01, 0x67, 0x33 };
static const uint8_t SALT1[32] = { 0x50,0x4f,0x4c,0x59,0x53,0x45,0x45,0x44,0x20,0x6b,0x65,0x79,0x00,0xff,0xff,0xff, 0,0,0,0, 1,0,0,0, 0,0,0,0, 0,0,0,0 };
static const uint8_t SALT2[32] = { 0x50,0x4f,0x4c,0x59,0x53,0x45,0x45,0x44,0x20,0x6b,0x65,0x79,0x00,0xff,0xff,0xff, 0,0,0,0, 0x33,0x02,0,0, 0,0,0,0, 0,0,0,0 };
static const uint8_t SALT3[32] = { 0x50,0x4f,0x4c,0x59,0x53,0x45,0x45,0x44,0x20,0x6b,0x65,0x79,0x00,0xff,0xff,0xff, 1,0,0,0, 0xf7,0x03,0,0, 1,0,0,0, 0,0,0,0 };
static const uint8_t SALTM[16] = { 0x50,0x4f,0x4c,0x59,0x53,0x45,0x45,0x44,0x20,0x6d,0x61,0x73,0x6b,0x00,0xff,0xff };

extern const polyseed_lang polyseed_lang_en;
int polyseed_lang_find_word(const polyseed_lang* lang, const char* word);

struct in_v_vectors { struct dep_in dep; };
VF_DECL(v_vectors)
void v_vectors(void) {
    struct in_v_vectors IN = VF_IN(v_vectors);
    /* concrete dependency answers of the published vector */
    for (int i = 0; i < 19; ++i) IN.dep.rnd[i] = RAND1[i];
    IN.dep.now = 1638446400ull;      /* SEED_TIME1, Dec 2021 */
    for (int i = 0; i < DEP_MAX_ALLOC; ++i) IN.dep.alloc_fail[i] = false;
    dep_install(&IN.dep);

    /* --- spec side: layout + check word give the published words -------- */
    uint8_t sec[19];
    for (int i = 0; i < 19; ++i) sec[i] = RAND1[i];
    sec[18] &= 0x3F;
    unsigned c[16];
    spec_pack(sec, 1, 0, c);
    c[0] = spec_checksum(sec, 1, 0);
    for (int w = 0; w < 16; ++w) {
        int j = polyseed_lang_find_word(&polyseed_lang_en, WORDS_EN1[w]);
        VASSERT(j >= 0 && (unsigned)j == c[w], "VEC spec layout and check word reproduce the published English phrase of seed 1 (through the real word search)");
    }
    uint8_t salt[32];
    spec_salt_key(0, 1, 0, salt);
    for (int i = 0; i < 32; ++i) VASSERT(salt[i] == SALT1[i], "VEC spec KDF salt, seed 1");
    spec_salt_key(0, 0x233, 0, salt);
    for (int i = 0; i < 32; ++i) VASSERT(salt[i] == SALT2[i], "VEC spec KDF salt, seed 2");
    spec_salt_key(1, 0x3f7, 1, salt);
    for (int i = 0; i < 32; ++i) VASSERT(salt[i] == SALT3[i], "VEC spec KDF salt, seed 3");
    uint8_t sm[16]; spec_salt_mask(sm);
    for (int i = 0; i < 16; ++i) VASSERT(sm[i] == SALTM[i], "VEC spec mask salt");

    /* --- real side: create -> encode -> decode -> keygen -> store -------- */
    polyseed_data* seed = NULL;
    VASSERT(polyseed_create(0, &seed) == POLYSEED_OK, "VEC create");
    VASSERT(seed->birthday == 1 && seed->features == 0, "VEC birthday index of Dec 2021 is 1");
    static polyseed_str out;
    size_t n = polyseed_encode(seed, &polyseed_lang_en, POLYSEED_MONERO, out);
    VASSERT(n == sizeof(PHRASE_EN1) - 1, "VEC encoded length");
    for (size_t i = 0; i < sizeof(PHRASE_EN1); ++i) VASSERT(out[i] == PHRASE_EN1[i], "VEC real encoder reproduces the published phrase");
    polyseed_data* back = NULL; const polyseed_lang* lang = NULL;
    VASSERT(polyseed_decode_explicit(PHRASE_EN1, POLYSEED_MONERO, &polyseed_lang_en, &back) == POLYSEED_OK, "VEC real decoder accepts the published phrase");
    (void)lang;
    VASSERT(back->birthday == 1 && back->features == 0 && back->checksum == seed->checksum, "VEC decoded fields");
    for (int i = 0; i < 32; ++i) VASSERT(back->secret[i] == seed->secret[i], "VEC decoded secret");
    VASSERT(polyseed_decode_explicit(PHRASE_EN1, POLYSEED_AEON, &polyseed_lang_en, &back) == POLYSEED_ERR_CHECKSUM, "VEC other coin rejected");
    uint8_t key[32];
    polyseed_keygen(seed, POLYSEED_MONERO, 32, key);
    for (int i = 0; i < 32; ++i) VASSERT(L_kdf[0].pw_copy[i] == PW1[i] && L_kdf[0].salt_copy[i] == SALT1[i], "VEC real KDF inputs = published hex vectors");
    polyseed_storage img; uint8_t ref[32];
    polyseed_store(seed, img);
    spec_store(sec, 1, 0, c[0], ref);
    for (int i = 0; i < 32; ++i) VASSERT(img[i] == ref[i], "VEC real storage image = spec image");
    VEND();
}
