/* T1: the four word comparators of src/lang.c against the acceptance rule of the
 *     property text, on two symbolic strings.
 * T3-lemma: order lemma on the *real* comparator: whenever two words (a, b)
 *     satisfy the adjacency hypothesis H of a sorted list, then for every key
 *     sign(cmp(key,a)) >= sign(cmp(key,b)) and they are not both 0.  Together
 *     with "every adjacent pair of the shipped table satisfies H" (T3-adjacent)
 *     this makes the sign sequence seen by bsearch monotone with at most one 0.
 * Compile-time parameters: RULE (0..3), KMAX, WMAX, optional KLEN / WLEN / ALEN /
 * BLEN (exact lengths: partition cells), NOACCENT_DOMAIN.                      */
#include "vf.h"
#include "spec.h"
#include "polyseed.h"
#include "lang.h"

#ifndef RULE
#define RULE 3
#endif
#ifndef KMAX
#define KMAX 8
#endif
#ifndef WMAX
#define WMAX 6
#endif

int __CPROVER_file_local_lang_c_compare_str_wrap(const void* a, const void* b);
int __CPROVER_file_local_lang_c_compare_prefix_wrap(const void* a, const void* b);
int __CPROVER_file_local_lang_c_compare_str_noaccent_wrap(const void* a, const void* b);
int __CPROVER_file_local_lang_c_compare_prefix_noaccent_wrap(const void* a, const void* b);
typedef int cmp_fn(const void*, const void*);
cmp_fn* __CPROVER_file_local_lang_c_get_comparer(const polyseed_lang* lang);

static int real_cmp(const char* key, const char* elm) {
#if RULE == 0
    return __CPROVER_file_local_lang_c_compare_str_wrap(&key, &elm);
#elif RULE == 1
    return __CPROVER_file_local_lang_c_compare_prefix_wrap(&key, &elm);
#elif RULE == 2
    return __CPROVER_file_local_lang_c_compare_str_noaccent_wrap(&key, &elm);
#else
    return __CPROVER_file_local_lang_c_compare_prefix_noaccent_wrap(&key, &elm);
#endif
}

/* Domain of strings for the accent-insensitive rules: ASCII bytes and UTF-8
 * combining diacritical marks U+0300..U+036F (CC 80..CD AF) -- "accents" of a
 * decomposed string.  Other non-ASCII input is covered for memory safety only
 * (t1_safety), the property does not say how it compares.                      */
static bool dom_ok(const unsigned char* s, unsigned max) {
#if (RULE & 2) && !defined(ANY_BYTES)
    unsigned i = 0;
    while (i < max && s[i] != 0) {
        if (s[i] < 0x80) { i++; continue; }
        if (i + 1 >= max) return false;
        if (s[i] == 0xCC && s[i + 1] >= 0x80 && s[i + 1] <= 0xBF) { i += 2; continue; }
        if (s[i] == 0xCD && s[i + 1] >= 0x80 && s[i + 1] <= 0xAF) { i += 2; continue; }
        return false;
    }
#else
    (void)s; (void)max;
#endif
    return true;
}

static void fix_len(char* s, unsigned max, int exact) {
    s[max] = '\0';
    if (exact >= 0) {
        for (int i = 0; i < exact; ++i) VASSUME(s[i] != '\0');
        s[exact] = '\0';
    }
}

#ifndef KLEN
#define KLEN -1
#endif
#ifndef WLEN
#define WLEN -1
#endif
#ifndef ALEN
#define ALEN -1
#endif
#ifndef BLEN
#define BLEN -1
#endif

/* ---- T1 ---------------------------------------------------------------- */
struct in_t1_accept { char key[KMAX + 1]; char elm[WMAX + 1]; };
VF_DECL(t1_accept)
void t1_accept(void) {
    struct in_t1_accept IN = VF_IN(t1_accept);
    fix_len(IN.key, KMAX, KLEN);
    fix_len(IN.elm, WMAX, WLEN);
    VASSUME(dom_ok((unsigned char*)IN.key, KMAX) && dom_ok((unsigned char*)IN.elm, WMAX));
    char key0[KMAX + 1], elm0[WMAX + 1];
    for (int i = 0; i <= KMAX; ++i) key0[i] = IN.key[i];
    for (int i = 0; i <= WMAX; ++i) elm0[i] = IN.elm[i];
    int c = real_cmp(IN.key, IN.elm);
    unsigned char kl[KMAX + 1], wl[WMAX + 1];
    unsigned kn = spec_letters(RULE, (unsigned char*)IN.key, KMAX, kl);
    unsigned wn = spec_letters(RULE, (unsigned char*)IN.elm, WMAX, wl);
    bool acc = spec_accept_letters(RULE, kl, kn, wl, wn);
    VASSERT((c == 0) == acc, "T1 token accepted iff it equals the word or is a prefix of >= 4 characters (accents ignored for es/fr; exact for jp/ko/zh)");
    VASSERT(c >= -1 && c <= 1, "T1 comparator returns -1, 0 or 1");
    for (int i = 0; i <= KMAX; ++i) VASSERT(IN.key[i] == key0[i], "T1 comparator does not modify the token");
    for (int i = 0; i <= WMAX; ++i) VASSERT(IN.elm[i] == elm0[i], "T1 comparator does not modify the word");
    VEND();
}

/* memory safety / termination on arbitrary bytes (no functional claim) */
struct in_t1_safety { char key[KMAX + 1]; char elm[WMAX + 1]; };
VF_DECL(t1_safety)
void t1_safety(void) {
    struct in_t1_safety IN = VF_IN(t1_safety);
    IN.key[KMAX] = '\0'; IN.elm[WMAX] = '\0';
    int c = real_cmp(IN.key, IN.elm);
    VASSERT(c >= -1 && c <= 1, "T1 comparator total on arbitrary bytes");
    VEND();
}

/* flags -> rule */
struct in_t1_comparer { bool has_prefix, has_accents; };
VF_DECL(t1_comparer)
void t1_comparer(void) {
    struct in_t1_comparer IN = VF_IN(t1_comparer);
    polyseed_lang l;
    l.has_prefix = IN.has_prefix; l.has_accents = IN.has_accents;
    l.is_sorted = true; l.compose = false;
    cmp_fn* f = __CPROVER_file_local_lang_c_get_comparer(&l);
    cmp_fn* want = IN.has_prefix
        ? (IN.has_accents ? __CPROVER_file_local_lang_c_compare_prefix_noaccent_wrap : __CPROVER_file_local_lang_c_compare_prefix_wrap)
        : (IN.has_accents ? __CPROVER_file_local_lang_c_compare_str_noaccent_wrap : __CPROVER_file_local_lang_c_compare_str_wrap);
    VASSERT(f == want, "T1 comparator selected from the language flags (prefix / accents)");
    VEND();
}

/* ---- T3 order lemma on the real comparator ------------------------------ */
/* adjacency hypothesis H(a,b) for a sorted list under RULE, on the letters the
 * rule looks at, bytes ordered as the build's plain char orders them:
 *   a < b lexicographically, and (prefix rules) a and b do not agree on their
 *   first four letters when both have at least four                          */
static bool hyp_H(const unsigned char* a, unsigned an, const unsigned char* b, unsigned bn) {
    /* a[an] == b[bn] == 0: the terminator takes part in the comparison, as in strcmp */
    unsigned i = 0;
    while (i < an && i < bn && a[i] == b[i]) i++;
    if (i == an && i == bn) return false;             /* equal */
    if (!((char)a[i] < (char)b[i])) return false;     /* not in ascending order */
#if RULE & 1
    if (an >= 4 && bn >= 4 && i >= 4) return false;   /* share their first four letters */
#endif
    return true;
}

struct in_t3_lemma { char key[KMAX + 1]; char a[WMAX + 1]; char b[WMAX + 1]; };
VF_DECL(t3_lemma)
void t3_lemma(void) {
    struct in_t3_lemma IN = VF_IN(t3_lemma);
    fix_len(IN.key, KMAX, KLEN);
    fix_len(IN.a, WMAX, ALEN);
    fix_len(IN.b, WMAX, BLEN);
    VASSUME(dom_ok((unsigned char*)IN.key, KMAX) && dom_ok((unsigned char*)IN.a, WMAX) && dom_ok((unsigned char*)IN.b, WMAX));
    unsigned char al[WMAX + 1], bl[WMAX + 1];
    unsigned an = spec_letters(RULE, (unsigned char*)IN.a, WMAX, al);
    unsigned bn = spec_letters(RULE, (unsigned char*)IN.b, WMAX, bl);
    VASSUME(hyp_H(al, an, bl, bn));
    int ca = real_cmp(IN.key, IN.a);
    int cb = real_cmp(IN.key, IN.b);
    VASSERT(ca >= cb, "T3 comparator signs are non-increasing along a sorted list");
    VASSERT(!(ca == 0 && cb == 0), "T3 a token never matches two neighbouring words");
    VEND();
}

/* ---- long tokens: a symbolic head, a long concrete filler of symbolic length, a
 * symbolic tail.  Filler: a letter for the exact/prefix rules, the combining mark
 * U+0301 (CC 81) for the accent-insensitive rules.  Covers token lengths up to
 * KHEAD + 2*PADMAX + KTAIL bytes (> 256) against words of <= WMAX bytes.          */
#ifndef KHEAD
#define KHEAD 6
#endif
#ifndef KTAIL
#define KTAIL 4
#endif
#ifndef PADMAX
#define PADMAX 140
#endif
#define KLONG (KHEAD + 2 * PADMAX + KTAIL)
struct in_t1_long { char head[KHEAD]; unsigned pad; char tail[KTAIL]; unsigned headlen, taillen; char elm[WMAX + 1]; };
VF_DECL(t1_long)
void t1_long(void) {
    struct in_t1_long IN = VF_IN(t1_long);
    VASSUME(IN.headlen <= KHEAD && IN.taillen <= KTAIL && IN.pad <= PADMAX);
#ifdef PADFIX
    IN.pad = PADFIX;        /* concrete filler length (the accent rules' nested skip loops do not scale with a symbolic one) */
#endif
    static char key[KLONG + 1];
    unsigned n = 0;
    for (unsigned i = 0; i < KHEAD; ++i) if (i < IN.headlen) { VASSUME(IN.head[i] != '\0'); key[n++] = IN.head[i]; }
    for (unsigned i = 0; i < PADMAX; ++i) if (i < IN.pad) {
#if RULE & 2
        key[n++] = (char)0xCC; key[n++] = (char)0x81;
#else
        key[n++] = 'x'; key[n++] = 'y';
#endif
    }
    for (unsigned i = 0; i < KTAIL; ++i) if (i < IN.taillen) { VASSUME(IN.tail[i] != '\0'); key[n++] = IN.tail[i]; }
    key[n] = '\0';
    fix_len(IN.elm, WMAX, -1);
    VASSUME(dom_ok((unsigned char*)key, KLONG) && dom_ok((unsigned char*)IN.elm, WMAX));
    int c = real_cmp(key, IN.elm);
    static unsigned char kl[KLONG + 1];
    unsigned char wl[WMAX + 1];
    unsigned kn = spec_letters(RULE, (unsigned char*)key, KLONG, kl);
    unsigned wn = spec_letters(RULE, (unsigned char*)IN.elm, WMAX, wl);
    VASSERT((c == 0) == spec_accept_letters(RULE, kl, kn, wl, wn), "T1 long tokens (hundreds of bytes) are accepted by the same rule: equal, or a prefix of >= 4 characters, never when they continue past the word");
    VEND();
}
