/* T4 + T3-adjacent: the shipped table of ONE language (-DLID=es ...), real
 * initialisers of src/lang_<id>.c linked.  Concrete loops over the 2048 words:
 * CBMC constant-folds them (degenerate solver use, stated in the evidence).   */
#include "vf.h"
#include "spec.h"
#include "polyseed.h"
#include "lang.h"
#include GOLD_HEADER
#include "langdata_gen.h"

#define CAT_(a, b) a##b
#define CAT(a, b) CAT_(a, b)
#define REAL CAT(polyseed_lang_, LID)
#define GOLD CAT(GOLD_, LID)
#define GOLD_NAME CAT(GOLD_NAME_, LID)
#define GOLD_NAME_EN CAT(GOLD_NAME_EN_, LID)
#define GOLD_SEP CAT(GOLD_SEP_, LID)
#define GOLD_FLAGS CAT(GOLD_FLAGS_, LID)
#define WLEN CAT(WLEN_, LID)
#define NKNOWN CAT(NKNOWN_, LID)
#define KNOWN_PREFIX CAT(KNOWN_PREFIX_, LID)

extern const polyseed_lang REAL;

static bool str_eq(const char* a, const char* b) {
    unsigned i = 0;
    while (a[i] != '\0' && a[i] == b[i]) i++;
    return a[i] == b[i];
}

/* letters the language's rule looks at */
static unsigned letters(const char* s, bool strip, unsigned char* out) {
    unsigned n = 0;
    for (unsigned i = 0; s[i] != '\0'; ++i) {
        unsigned char c = (unsigned char)s[i];
        if (strip && c >= 0x80) continue;
        out[n++] = c;
    }
    out[n] = 0;
    return n;
}

struct in_t4_table { unsigned dummy; };
VF_DECL(t4_table)
void t4_table(void) {
    struct in_t4_table IN = VF_IN(t4_table);
    (void)IN;
    const polyseed_lang* L = &REAL;
    /* registered */
    bool reg = false;
    int nl = polyseed_get_num_langs();
    VASSERT(nl == 10, "T4 ten languages registered");
    for (int i = 0; i < 10; ++i) if (polyseed_get_lang(i) == L) reg = true;
    VASSERT(reg, "T4 language is in the registry");
    VASSERT(str_eq(polyseed_get_lang_name(L), GOLD_NAME) && str_eq(polyseed_get_lang_name_en(L), GOLD_NAME_EN), "T4 language names as published");
    VASSERT(str_eq(L->separator, GOLD_SEP), "T4 separator as published");
    unsigned flags = (L->is_sorted ? 1 : 0) | (L->has_prefix ? 2 : 0) | (L->has_accents ? 4 : 0) | (L->compose ? 8 : 0);
    VASSERT(flags == GOLD_FLAGS, "T4 sorted/prefix/accents/compose flags as published");
    VASSERT(!L->has_accents || L->compose, "T4 accented languages are composed on output");

    bool strip = (GOLD_FLAGS & 4) != 0, prefix = (GOLD_FLAGS & 2) != 0, sorted = (GOLD_FLAGS & 1) != 0;
    unsigned char prev[40], cur[40];
    unsigned pn = 0, cn = 0;
    for (int j = 0; j < POLYSEED_LANG_SIZE; ++j) {
        const char* w = L->words[j];
        VASSERT(str_eq(w, GOLD[j]), "T4 word equals the published word at the same index (frozen list)");
        unsigned len = 0;
        bool shape = true;
        for (; w[len] != '\0'; ++len) {
            unsigned char c = (unsigned char)w[len];
            if (c <= 0x20 || c == 0x7f) shape = false;
            if (prefix && !strip && c >= 0x80) shape = false;               /* en it cs pt: ASCII only */
            if (prefix && c < 0x80 && !(c >= 'a' && c <= 'z')) shape = false; /* letters */
            if (prefix && strip && c >= 0x80 && !(c == 0xCC || c == 0xCD || (c >= 0x80 && c <= 0xBF))) shape = false;
        }
        VASSERT(len >= 1 && shape, "T4 word is non-empty and contains no space, control byte or terminator; abbreviable lists are lower-case letters (plus combining marks for es/fr)");
        VASSERT(len == WLEN[j], "T4 generated length table matches the real word");
        cn = letters(w, strip, cur);
        if (j > 0 && sorted) {
            /* adjacency hypothesis H of the order lemma (t3_lemma) */
            unsigned i = 0;
            while (i < pn && i < cn && prev[i] == cur[i]) i++;
            VASSERT(!(i == pn && i == cn), "T3 adjacent words differ on the letters the rule compares (all words distinct)");
            VASSERT((char)prev[i] < (char)cur[i], "T3 list is in ascending order of the compared letters under this build's plain char");
            if (prefix) {
                VASSERT(!(pn >= 4 && cn >= 4 && i >= 4), "T3 no two words share their first four accent-stripped letters");
                if (i == pn) {
                    /* previous word is a prefix of this one: allowed only for the listed known finding */
                    bool known = false;
                    for (int k = 0; k < NKNOWN; ++k) if (str_eq((const char*)prev, KNOWN_PREFIX[k][0])) known = true;
                    VASSERT(known, "C07 no word is a prefix of another (outside the recorded known finding)");
                    VASSERT(pn < 4, "T3 a word that prefixes another has fewer than four letters");
                }
            }
        }
        for (unsigned i = 0; i <= cn; ++i) prev[i] = cur[i];
        pn = cn;
    }
    VEND();
}

/* registry entry, names, separator and flags only (cheap) */
VF_DECL2(t4_meta, in_t4_table)
void t4_meta(void) {
    struct in_t4_table IN = VF_IN(t4_meta);
    (void)IN;
    const polyseed_lang* L = &REAL;
    bool reg = false;
    VASSERT(polyseed_get_num_langs() == 10, "T4 ten languages registered");
    for (int i = 0; i < 10; ++i) if (polyseed_get_lang(i) == L) reg = true;
    VASSERT(reg, "T4 language is in the registry");
    VASSERT(str_eq(polyseed_get_lang_name(L), GOLD_NAME) && str_eq(polyseed_get_lang_name_en(L), GOLD_NAME_EN), "T4 language names as published");
    VASSERT(str_eq(L->separator, GOLD_SEP), "T4 separator as published (ideographic space for Japanese, ASCII space otherwise)");
    unsigned flags = (L->is_sorted ? 1 : 0) | (L->has_prefix ? 2 : 0) | (L->has_accents ? 4 : 0) | (L->compose ? 8 : 0);
    VASSERT(flags == GOLD_FLAGS, "T4 sorted/prefix/accents/compose flags as published (composition for es, fr, jp, ko)");
    VEND();
}

/* unsorted lists (Chinese): all words distinct.  PERM is a sorting permutation
 * computed by the driver (auxiliary, untrusted): if the words taken in PERM
 * order are strictly increasing, PERM is injective, hence a bijection on the
 * 2048 indices, hence no two entries of the list are equal.                   */
#define PERM CAT(PERM_, LID)
VF_DECL2(t4_distinct, in_t4_table)
void t4_distinct(void) {
    struct in_t4_table IN = VF_IN(t4_distinct);
    (void)IN;
#ifdef UNSORTED
    const polyseed_lang* L = &REAL;
    /* strict monotonicity under the driver's order */
    unsigned long p2 = 0;
    for (int k = 0; k < POLYSEED_LANG_SIZE; ++k) {
        VASSERT(PERM[k] < POLYSEED_LANG_SIZE, "T4 permutation entry in range");
        const unsigned char* w = (const unsigned char*)L->words[PERM[k]];
        unsigned long v = 0;
        unsigned len = 0;
        for (; w[len] != 0 && len < 8; ++len) v = (v << 8) | (unsigned long)w[len];
        VASSERT(w[len] == 0 && len >= 1, "T4 word length between 1 and 8 bytes");
        /* left-align so that byte-wise lexicographic order = numeric order */
        v <<= 8 * (8 - len);
        if (k > 0) VASSERT(p2 < v, "T4 words in permutation order are strictly increasing (so the list has no duplicates)");
        p2 = v;
    }
#endif
    VEND();
}

/* every word typed in full is found as its own index through the real search */
int polyseed_lang_find_word(const polyseed_lang* lang, const char* word);
VF_DECL2(t4_selffind, in_t4_table)
void t4_selffind(void) {
    struct in_t4_table IN = VF_IN(t4_selffind);
    (void)IN;
    const polyseed_lang* L = &REAL;
    for (int j = 0; j < POLYSEED_LANG_SIZE; ++j) {
        int r = polyseed_lang_find_word(L, L->words[j]);
        VASSERT(r == j, "T4 every word typed in full is recognised as its own index through the real search");
    }
    VEND();
}

/* abbreviable languages: the four-letter abbreviation (letters 1..4 with the marks
 * attached to them) and the accent-stripped full spelling of every word -- both
 * generated by the driver from the dumped table (auxiliary data) -- are each found
 * as the word's own index through the real search */
#ifdef ABBREV
#define ABBR CAT(ABBR_, LID)
#define PLAIN CAT(PLAIN_, LID)
VF_DECL2(t4_abbrevfind, in_t4_table)
void t4_abbrevfind(void) {
    struct in_t4_table IN = VF_IN(t4_abbrevfind);
    (void)IN;
    const polyseed_lang* L = &REAL;
    for (int j = 0; j < POLYSEED_LANG_SIZE; ++j) {
        VASSERT(polyseed_lang_find_word(L, ABBR[j]) == j, "T4 the four-letter abbreviation of every word is recognised as that word");
        VASSERT(polyseed_lang_find_word(L, PLAIN[j]) == j, "T4 the unaccented spelling of every word is recognised as that word");
    }
    VEND();
}
#endif

/* the library's own self-test (run by polyseed_inject when assertions are enabled)
 * must not fail on the shipped list: sortedness under the real comparator, every
 * word NFKD-stable, accented languages composed, separator normalising to a space.
 * Build configuration "d" (no -DNDEBUG).  NFKD is a stub with the two Unicode facts
 * that are validated separately with unicodedata: words are NFKD-stable (identity)
 * and U+3000 decomposes to an ASCII space.                                        */
/* (not registered: the concrete run of polyseed_lang_check does not finish within 25 min under CBMC --
 * every iteration goes through a 544-byte normalisation buffer; its three facts are decided elsewhere:
 * sortedness under the real comparator = t4_table adjacency + t3_lemma with key = the word itself,
 * NFKD stability and the separator = unicodedata validation, flags = t4_meta) */
#ifdef SELFCHECK
#include "dependency.h"
static size_t sc_nfkd(const char* str, polyseed_str norm) {
    size_t n = 0;
    while (*str != '\0' && n < POLYSEED_STR_SIZE - 1) {
        if ((unsigned char)str[0] == 0xE3 && (unsigned char)str[1] == 0x80 && (unsigned char)str[2] == 0x80) { norm[n++] = ' '; str += 3; }
        else norm[n++] = *str++;
    }
    norm[n] = '\0';
    return n;
}
VF_DECL2(t4_selfcheck, in_t4_table)
void t4_selfcheck(void) {
    struct in_t4_table IN = VF_IN(t4_selfcheck);
    (void)IN;
    polyseed_deps.u8_nfkd = sc_nfkd;
    polyseed_lang_check(&REAL);      /* its assert()s are the assertions */
    VEND();
}
#endif
