/* K3 pack/unpack (src/gf.c), K4 birthday (src/birthday.h), K5 features
 * (src/features.c, src/features.h), K6 storage image (src/storage.c).         */
#include "vf.h"
#include "spec.h"
#include "polyseed.h"
#include "gf.h"
#include "storage.h"
#include "birthday.h"
#include "features.h"

/* canonical seed fields */
struct seed_in { uint8_t secret[19]; unsigned birthday, features; unsigned checksum; };

static void seed_assume(const struct seed_in* s) {
    VASSUME(s->birthday < 1024 && s->features < 32 && s->checksum < 2048);
    VASSUME((s->secret[18] & 0xC0) == 0);
}

static void seed_fill(polyseed_data* d, const struct seed_in* s) {
    d->birthday = s->birthday; d->features = s->features; d->checksum = s->checksum;
    for (int i = 0; i < 32; ++i) d->secret[i] = i < 19 ? s->secret[i] : 0;
}

/* ---- K3: data -> polynomial follows the published layout ------------- */
struct in_k3_pack { struct seed_in s; unsigned c0; uint8_t pad[13]; };
VF_DECL(k3_pack)
void k3_pack(void) {
    struct in_k3_pack IN = VF_IN(k3_pack);
    seed_assume(&IN.s);
    polyseed_data d;
    seed_fill(&d, &IN.s);
    /* the layout must not depend on anything but secret[0..18], birthday, features */
    for (int i = 0; i < 13; ++i) d.secret[19 + i] = IN.pad[i];
    gf_poly p;
    for (int i = 0; i < 16; ++i) p.coeff[i] = 0;
    p.coeff[0] = IN.c0;
    polyseed_data_to_poly(&d, &p);
    unsigned c[16];
    spec_pack(IN.s.secret, IN.s.birthday, IN.s.features, c);
    VASSERT(p.coeff[0] == IN.c0, "K3 pack leaves the check word alone");
    for (int i = 1; i < 16; ++i) {
        VASSERT(p.coeff[i] == c[i], "K3 data word = 10 secret bits then one feature/birthday bit (published layout)");
        VASSERT(p.coeff[i] < 2048, "K3 data word is a field element");
    }
    VEND();
}

/* polynomial -> data is the inverse, fully initialises the destination */
struct in_k3_unpack { unsigned c[16]; polyseed_data prior; };
VF_DECL(k3_unpack)
void k3_unpack(void) {
    struct in_k3_unpack IN = VF_IN(k3_unpack);
    for (int i = 0; i < 16; ++i) VASSUME(IN.c[i] < 2048);
    gf_poly p;
    for (int i = 0; i < 16; ++i) p.coeff[i] = IN.c[i];
    polyseed_data d = IN.prior;          /* arbitrary prior contents */
    polyseed_poly_to_data(&p, &d);
    uint8_t s[32]; unsigned b, f;
    spec_unpack(IN.c, s, &b, &f);
    VASSERT(d.birthday == b && d.features == f, "K3 unpack birthday/features");
    VASSERT(d.checksum == IN.c[0], "K3 unpack check word");
    for (int i = 0; i < 32; ++i) VASSERT(d.secret[i] == s[i], "K3 unpack secret bytes, padding zero");
    VASSERT((d.secret[18] & 0xC0) == 0, "K3 unpack keeps the secret within 150 bits");
    VASSERT(d.birthday < 1024 && d.features < 32, "K3 unpack field ranges");
    /* round trip poly -> data -> poly */
    gf_poly q;
    for (int i = 0; i < 16; ++i) q.coeff[i] = 0;
    q.coeff[0] = d.checksum;
    polyseed_data_to_poly(&d, &q);
    for (int i = 0; i < 16; ++i) VASSERT(q.coeff[i] == IN.c[i], "K3 poly->data->poly is the identity");
    VEND();
}

struct in_k3_round { struct seed_in s; polyseed_data prior; };
VF_DECL(k3_round)
void k3_round(void) {
    struct in_k3_round IN = VF_IN(k3_round);
    seed_assume(&IN.s);
    polyseed_data d, e = IN.prior;
    seed_fill(&d, &IN.s);
    gf_poly p;
    for (int i = 0; i < 16; ++i) p.coeff[i] = 0;
    p.coeff[0] = d.checksum;
    polyseed_data_to_poly(&d, &p);
    polyseed_poly_to_data(&p, &e);
    VASSERT(e.birthday == d.birthday && e.features == d.features && e.checksum == d.checksum,
        "K3 data->poly->data keeps birthday, features, check word");
    for (int i = 0; i < 32; ++i) VASSERT(e.secret[i] == d.secret[i], "K3 data->poly->data keeps the secret");
    VEND();
}

/* ---- K4: birthday ---------------------------------------------------- */
struct in_k4_birthday { uint64_t t; unsigned b; };
VF_DECL(k4_birthday)
void k4_birthday(void) {
    struct in_k4_birthday IN = VF_IN(k4_birthday);
    uint64_t t = IN.t;
    unsigned k = birthday_encode(t);
    uint64_t B = birthday_decode(k);
    VASSERT(k < 1024, "K4 birthday index within 10 bits");
    VASSERT(B == SP_EPOCH + (uint64_t)k * SP_STEP, "K4 reported birthday = epoch + k*2629746");
    if (t < SP_EPOCH || t == UINT64_MAX) {
        VASSERT(B == SP_EPOCH, "K4 clock before the epoch or (time_t)-1 reports the epoch");
    } else {
        VASSERT(B <= t, "K4 birthday never later than creation time");
        if (t < SP_EPOCH + 1024 * SP_STEP) {
            VASSERT(t < B + SP_STEP, "K4 birthday accurate to one month inside the range");
        }
    }
    /* decode is defined for every stored index */
    VASSUME(IN.b < 1024);
    VASSERT(birthday_encode(birthday_decode(IN.b)) == IN.b, "K4 encode(decode(k)) = k");
    VASSERT(birthday_decode(IN.b) >= SP_EPOCH && birthday_decode(IN.b) <= SP_EPOCH + 1023 * SP_STEP,
        "K4 decode range");
    VEND();
}

/* ---- K5: features ----------------------------------------------------- */
/* The library state (file-local to features.c) is reached only through the API:
 * every reachable state is the initial one or the result of an enabling call
 * with an arbitrary 32-bit argument.  Feature values are 5-bit at every real
 * call site (K3/K6/K9 assert that), so features < 32 is the precondition.    */
struct in_k5_features { bool have_prior; unsigned prior, mask, mask2, features, qmask; };
VF_DECL(k5_features)
void k5_features(void) {
    struct in_k5_features IN = VF_IN(k5_features);
    VASSUME(IN.features < 32);
    if (IN.have_prior) (void)polyseed_enable_features(IN.prior);   /* arbitrary reachable prior state */
    int n = polyseed_enable_features(IN.mask);
    VASSERT(n == (int)spec_popcount3(IN.mask), "K5 enable returns the number of user bits in its argument");
    VASSERT(polyseed_features_supported(IN.features) == spec_supported(IN.features, IN.mask),
        "K5 supported iff no bit outside enabled mask and encryption bit");
    int n2 = polyseed_enable_features(IN.mask2);   /* last call wins */
    VASSERT(n2 == (int)spec_popcount3(IN.mask2), "K5 second enable return value");
    VASSERT(polyseed_features_supported(IN.features) == spec_supported(IN.features, IN.mask2),
        "K5 most recent enabling call wins");
    VASSERT(make_features(IN.features) == (IN.features & 7u), "K5 creation keeps exactly the three low bits");
    VASSERT(get_features(IN.features, IN.qmask) == (IN.features & IN.qmask & 7u), "K5 query returns stored user bits under the mask");
    VASSERT(is_encrypted(IN.features) == ((IN.features & 16u) != 0), "K5 encrypted flag is bit 4");
    VEND();
}

/* default state: no user feature enabled */
struct in_k5_default { unsigned features; };
VF_DECL(k5_default)
void k5_default(void) {
    struct in_k5_default IN = VF_IN(k5_default);
    VASSUME(IN.features < 32);
    VASSERT(polyseed_features_supported(IN.features) == spec_supported(IN.features, 0),
        "K5 by default only the encryption bit is accepted");
    VEND();
}

/* ---- K6: storage image ------------------------------------------------ */
struct in_k6_store { struct seed_in s; uint8_t prior[32]; };
VF_DECL(k6_store)
void k6_store(void) {
    struct in_k6_store IN = VF_IN(k6_store);
    seed_assume(&IN.s);
    polyseed_data d;
    seed_fill(&d, &IN.s);
    polyseed_storage out;
    for (int i = 0; i < 32; ++i) out[i] = IN.prior[i];
    polyseed_data_store(&d, out);
    uint8_t ref[32];
    spec_store(IN.s.secret, IN.s.birthday, IN.s.features, IN.s.checksum, ref);
    for (int i = 0; i < 32; ++i) VASSERT(out[i] == ref[i], "K6 image = 'POLYSEED' LE16(features<<10|birthday) secret FF LE16(0x7000|check)");
    /* and loading it back gives the same fields */
    polyseed_data e;
    polyseed_status st = polyseed_data_load(out, &e);
    VASSERT(st == POLYSEED_OK, "K6 load accepts what store wrote");
    VASSERT(e.birthday == d.birthday && e.features == d.features && e.checksum == d.checksum, "K6 store->load fields");
    for (int i = 0; i < 32; ++i) VASSERT(e.secret[i] == d.secret[i], "K6 store->load secret");
    VEND();
}

struct in_k6_load { uint8_t buf[32]; polyseed_data prior; };
VF_DECL(k6_load)
void k6_load(void) {
    struct in_k6_load IN = VF_IN(k6_load);
    polyseed_storage in;
    for (int i = 0; i < 32; ++i) in[i] = IN.buf[i];
    polyseed_data d = IN.prior;           /* arbitrary prior contents */
    polyseed_status st = polyseed_data_load(in, &d);
    bool ok = spec_image_format_ok(IN.buf);
    VASSERT(st == POLYSEED_OK || st == POLYSEED_ERR_FORMAT, "K6 load status set");
    VASSERT((st == POLYSEED_OK) == ok, "K6 format accepted iff header, bit 15, secret top bits, FF byte and footer are right");
    for (int i = 0; i < 32; ++i) VASSERT(in[i] == IN.buf[i], "K6 load does not modify its input");
    if (st == POLYSEED_OK) {
        VASSERT(d.birthday < 1024 && d.features < 32 && d.checksum < 2048, "K6 loaded field ranges");
        for (int i = 19; i < 32; ++i) VASSERT(d.secret[i] == 0, "K6 loaded padding zero");
        VASSERT((d.secret[18] & 0xC0) == 0, "K6 loaded secret within 150 bits");
        polyseed_storage out;
        polyseed_data_store(&d, out);
        for (int i = 0; i < 32; ++i) VASSERT(out[i] == IN.buf[i], "K6 acceptance implies store reproduces the buffer");
    }
    VEND();
}
