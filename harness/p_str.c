/* P1 write_str, P4 str_split (statics of src/polyseed.c) and P3 utf8_nfkd_lazy
 * (static of src/dependency.h, compiled here from the real header).           */
#include "vf.h"
#include "spec.h"
#include "deps.h"
#include "lang.h"

void __CPROVER_file_local_polyseed_c_write_str(char** pos, const char* str);
int __CPROVER_file_local_polyseed_c_str_split(char* str, polyseed_phrase words);

/* ---- P1 ------------------------------------------------------------------ */
#ifndef P1_SRC
#define P1_SRC 40
#endif
#define P1_BUF 96
#ifndef P1_OFF
#define P1_OFF 0
#endif
struct in_p1_write { char src[P1_SRC + 1]; char buf[P1_BUF]; unsigned off; };
VF_DECL(p1_write)
void p1_write(void) {
    struct in_p1_write IN = VF_IN(p1_write);
    IN.src[P1_SRC] = '\0';
    IN.off = P1_OFF;     /* start offset: concrete per cell (symbolic offsets make every store a 96-way case split) */
    char buf[P1_BUF];
    for (int i = 0; i < P1_BUF; ++i) buf[i] = IN.buf[i];
    unsigned n = 0; while (IN.src[n] != '\0') n++;
    char* pos = buf + IN.off;
    __CPROVER_file_local_polyseed_c_write_str(&pos, IN.src);
    VASSERT(pos == buf + IN.off + n, "P1 position advanced by exactly the length of the string");
    for (unsigned i = 0; i < P1_BUF; ++i) {
        char want = (i >= IN.off && i < IN.off + n) ? IN.src[i - IN.off] : IN.buf[i];
        /* (whether a terminator is left at the new position is the caller's business) */
        if (i == IN.off + n) VASSERT(buf[i] == want || buf[i] == '\0', "P1 at most a terminator is written at the new position");
        else VASSERT(buf[i] == want, "P1 exactly the string's bytes are written, nothing else");
    }
    VEND();
}

/* ---- P3 ------------------------------------------------------------------ */
#ifndef P3_LEN
#define P3_LEN (POLYSEED_STR_SIZE + 40)      /* strings well beyond the public buffer size */
#endif
#ifdef P3_PREFIX_REL
#define P3_PREFIX (POLYSEED_STR_SIZE - P3_PREFIX_REL)
#endif
#ifdef P3_PREFIX_ABS
#define P3_PREFIX P3_PREFIX_ABS
#endif
struct in_p3_lazy { struct dep_in dep; char str[P3_LEN + 1]; };
VF_DECL(p3_lazy)
void p3_lazy(void) {
    struct in_p3_lazy IN = VF_IN(p3_lazy);
    IN.str[P3_LEN] = '\0';
#ifdef P3_EXACT
    for (int i = 0; i < P3_EXACT; ++i) VASSUME(IN.str[i] != '\0');
    IN.str[P3_EXACT] = '\0';
#endif
#ifdef P3_PREFIX
    /* quick tier: a concrete ASCII prefix, symbolic bytes around the buffer size */
    for (int i = 0; i < P3_PREFIX; ++i) IN.str[i] = 'a';
#endif
    IN.dep.norm_out[DEP_STR_MAX] = '\0';
    { size_t full = 0; while (IN.str[full] != '\0') full++; VASSUME(IN.dep.probe <= full); }
    dep_install(&IN.dep);
    polyseed_str norm;
    size_t r = utf8_nfkd_lazy(IN.str, norm);
    /* expected, in one pass: is there a non-ASCII byte among the bytes the
     * library may look at (the first POLYSEED_STR_SIZE-1 of the string)?       */
    size_t lim = 0; bool nonascii = false, ended = false, copy_ok = true;
    for (size_t i = 0; i <= P3_LEN; ++i) {
        if (!ended && IN.str[i] == '\0') ended = true;
        if (!ended && i < POLYSEED_STR_SIZE - 1) {
            lim = i + 1;
            if ((unsigned char)IN.str[i] >= 0x80) nonascii = true;
            if (norm[i] != IN.str[i]) copy_ok = false;
        }
    }
    if (nonascii) {
        VASSERT(L_nfkd_calls == 1 && L_nfkd_out == norm, "P3 non-ASCII input goes to the injected NFKD, once, writing into the caller's buffer");
        VASSERT(L_nfkd_probe_byte == IN.str[IN.dep.probe], "P3 the injected NFKD receives the caller's whole string, however long (normalisation may shorten it)");
        size_t e = 0; while (IN.dep.norm_out[e] != '\0') e++;
        VASSERT(r == e, "P3 the normaliser's result is returned unchanged");
    } else {
        VASSERT(L_nfkd_calls == 0, "P3 pure ASCII input is not sent to the normaliser");
        VASSERT(r == lim, "P3 ASCII input: returned length = length of the copy; strings shorter than the public buffer size are not truncated");
        VASSERT(copy_ok, "P3 ASCII input copied unchanged");
        VASSERT(norm[lim] == '\0', "P3 copy is NUL-terminated inside the buffer");
    }
    VASSERT(L_nfc_calls == 0 && L_alloc_calls == 0 && L_mz_calls == 0, "P3 no other dependency");
    VEND();
}

/* ---- P4 ------------------------------------------------------------------ */
#ifndef P4_LEN
#define P4_LEN 12
#endif
#ifndef P4_EXACT
#define P4_EXACT -1
#endif
struct in_p4_split { char s[P4_LEN + 1]; };
VF_DECL(p4_split)
void p4_split(void) {
    struct in_p4_split IN = VF_IN(p4_split);
    IN.s[P4_LEN] = '\0';
#ifdef P4_NTOK
    /* count-boundary family: concrete layout (token count, token lengths, one
     * doubled separator, trailing separator), every token byte symbolic       */
    {
        unsigned p = 0;
        for (int t = 0; t < P4_NTOK; ++t) {
            /* pattern 4: one long token (33 bytes = longest word of any list) among one-byte tokens */
            unsigned tl = P4_PATTERN == 0 ? 1 : P4_PATTERN == 1 ? 2 : P4_PATTERN == 2 ? ((t & 1) ? 3 : 1)
                        : P4_PATTERN == 4 ? (t == P4_NTOK / 2 ? 33u : 1u) : (unsigned)(t % 4) + 1;
            for (unsigned k = 0; k < tl; ++k) { VASSUME(IN.s[p] != '\0' && IN.s[p] != ' '); p++; }
            if (t + 1 < P4_NTOK || P4_TRAIL) IN.s[p++] = ' ';
            if (t + 1 == P4_NTOK && P4_TRAIL == 2) IN.s[p++] = ' ';   /* two trailing separators */
            bool dbl = (P4_DOUBLE == 1 && t == 0) || (P4_DOUBLE == 2 && t == P4_NTOK / 2) || (P4_DOUBLE == 3 && t == P4_NTOK - 2);
            if (dbl && t + 1 < P4_NTOK) IN.s[p++] = ' ';   /* an empty token */
        }
        IN.s[p] = '\0';
    }
#endif
    if (P4_EXACT >= 0) {
        for (int i = 0; i < P4_EXACT; ++i) VASSUME(IN.s[i] != '\0');
        IN.s[P4_EXACT >= 0 ? P4_EXACT : 0] = '\0';
    }
    char buf[P4_LEN + 1];
    for (int i = 0; i <= P4_LEN; ++i) buf[i] = IN.s[i];
    static const char SENT = 0;
    polyseed_phrase words;
    for (int k = 0; k < 16; ++k) words[k] = &SENT;

    int w = __CPROVER_file_local_polyseed_c_str_split(buf, words);

    /* declarative expectation: fields separated by single ASCII spaces; one
     * trailing space is ignored; empty fields count; more than 16 -> 17       */
    unsigned n = 0; while (IN.s[n] != '\0') n++;
    unsigned sp = 0;
    for (unsigned i = 0; i < n; ++i) if (IN.s[i] == ' ') sp++;
    unsigned fields = n == 0 ? 0 : sp + 1 - (IN.s[n - 1] == ' ' ? 1 : 0);
    int want = fields > 16 ? 17 : (int)fields;
    VASSERT(w == want, "P4 token count: empty and extra tokens are counted, a single trailing space is not");
    unsigned stored = w > 16 ? 16 : (unsigned)w;
    if (stored > 0) VASSERT(words[0] == buf, "P4 first token starts at the beginning");
    unsigned cnt = 0;
    for (unsigned i = 0; i <= P4_LEN; ++i) {
        bool is_sep = i < n && IN.s[i] == ' ';
        if (is_sep) cnt++;
        if (is_sep && cnt <= 16) {
            VASSERT(buf[i] == '\0', "P4 each of the first 16 separators becomes a terminator");
            if (cnt < stored) VASSERT(words[cnt] == buf + i + 1, "P4 next token starts right after the separator");
        } else {
            VASSERT(buf[i] == IN.s[i], "P4 no other byte is modified");
        }
    }
    for (unsigned k = 0; k < 16; ++k) if (k >= stored) VASSERT(words[k] == &SENT, "P4 no pointer stored beyond the tokens found (never more than 16)");
    VEND();
}
