/* K1/K2: GF(2048) arithmetic and the Reed-Solomon check word.
 * Real code: src/gf.h (gf_elem_mul2, gf_poly_eval, gf_poly_encode, gf_poly_check),
 *            src/gf.c (polyseed_mul2_table).                                    */
#include "vf.h"
#include "spec.h"
#include "gf.h"

/* ---- K1: multiplication by x ---------------------------------------- */
struct in_k1_mul2 { unsigned x, y; };
VF_DECL(k1_mul2)
void k1_mul2(void) {
    struct in_k1_mul2 IN = VF_IN(k1_mul2);
    VASSUME(IN.x < 2048 && IN.y < 2048);
    gf_elem rx = gf_elem_mul2(IN.x);
    gf_elem ry = gf_elem_mul2(IN.y);
    VASSERT(rx == spec_mul2(IN.x), "K1 mul2 equals multiplication by x mod x^11+x^2+1");
    VASSERT(rx < 2048, "K1 mul2 closed over the field");
    VASSERT(IN.x == IN.y || rx != ry, "K1 mul2 injective");
    VASSERT((IN.x == 0) == (rx == 0), "K1 mul2 has no zero divisors");
    VEND();
}

/* ---- K2: evaluation, encode, check ---------------------------------- */
struct in_k2 {
    unsigned c[16];
    unsigned pos, delta;       /* single error */
    unsigned i, j;             /* swap         */
    unsigned c0b;              /* alternative check word */
    unsigned coinA, coinB;
};

static void k2_load(const struct in_k2* in, gf_poly* p) {
    for (int k = 0; k < 16; ++k) p->coeff[k] = in->c[k];
}

VF_DECL2(k2_eval, in_k2)
void k2_eval(void) {
    struct in_k2 IN = VF_IN(k2_eval);
    for (int k = 0; k < 16; ++k) VASSUME(IN.c[k] < 2048);
    gf_poly p;
    k2_load(&IN, &p);
    VASSERT(gf_poly_eval(&p) == spec_eval(IN.c), "K2 gf_poly_eval equals Horner value at x=2");
    VASSERT(gf_poly_check(&p) == (spec_eval(IN.c) == 0), "K2 gf_poly_check iff value is zero");
    VEND();
}

/* encode (precondition coeff[0]==0, established at both call sites, see K8/K9)
 * then: check holds; any single-coefficient error breaks it; any swap of two
 * unequal coefficients breaks it; the check word is unique; coin binding      */
VF_DECL2(k2_single, in_k2)
void k2_single(void) {
    struct in_k2 IN = VF_IN(k2_single);
    for (int k = 0; k < 16; ++k) VASSUME(IN.c[k] < 2048);
    gf_poly p;
    k2_load(&IN, &p);
    p.coeff[0] = 0;
    gf_poly_encode(&p);
    VASSERT(p.coeff[0] < 2048, "K2 check word is a field element");
    VASSERT(gf_poly_check(&p), "K2 encoded polynomial passes the check");
    VASSUME(IN.pos < 16 && IN.delta >= 1 && IN.delta < 2048);
    p.coeff[IN.pos] ^= IN.delta;
    VASSERT(!gf_poly_check(&p), "K2 every single-word error is detected");
    VEND();
}

VF_DECL2(k2_swap, in_k2)
void k2_swap(void) {
    struct in_k2 IN = VF_IN(k2_swap);
    for (int k = 0; k < 16; ++k) VASSUME(IN.c[k] < 2048);
    gf_poly p;
    k2_load(&IN, &p);
    p.coeff[0] = 0;
    gf_poly_encode(&p);
    VASSUME(IN.i < 16 && IN.j < 16 && IN.i < IN.j);
    VASSUME(p.coeff[IN.i] != p.coeff[IN.j]);
    gf_elem t = p.coeff[IN.i];
    p.coeff[IN.i] = p.coeff[IN.j];
    p.coeff[IN.j] = t;
    VASSERT(!gf_poly_check(&p), "K2 every swap of two unequal words is detected");
    VEND();
}

VF_DECL2(k2_unique, in_k2)
void k2_unique(void) {
    struct in_k2 IN = VF_IN(k2_unique);
    for (int k = 0; k < 16; ++k) VASSUME(IN.c[k] < 2048);
    VASSUME(IN.c0b < 2048);
    gf_poly p, q;
    k2_load(&IN, &p);
    k2_load(&IN, &q);
    q.coeff[0] = IN.c0b;
    VASSUME(gf_poly_check(&p) && gf_poly_check(&q));
    VASSERT(p.coeff[0] == q.coeff[0], "K2 exactly one check word validates 15 data words");
    /* and it is the one gf_poly_encode computes */
    gf_poly r;
    k2_load(&IN, &r);
    r.coeff[0] = 0;
    gf_poly_encode(&r);
    VASSERT(r.coeff[0] == p.coeff[0], "K2 the validating check word is the encoded one");
    VEND();
}

VF_DECL2(k2_coin, in_k2)
void k2_coin(void) {
    struct in_k2 IN = VF_IN(k2_coin);
    for (int k = 0; k < 16; ++k) VASSUME(IN.c[k] < 2048);
    VASSUME(IN.coinA < 2048 && IN.coinB < 2048);
    gf_poly p;
    k2_load(&IN, &p);
    p.coeff[0] = 0;
    gf_poly_encode(&p);
    p.coeff[1] ^= IN.coinA;   /* encoder side */
    p.coeff[1] ^= IN.coinB;   /* decoder side */
    VASSERT(gf_poly_check(&p) == (IN.coinA == IN.coinB), "K2 phrase validates for its own coin only");
    VEND();
}
