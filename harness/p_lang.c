/* P6: language detection and explicit word lookup of src/lang.c
 * (polyseed_phrase_decode, polyseed_phrase_decode_explicit, polyseed_get_lang,
 * polyseed_get_num_langs) with lang_search replaced by a deterministic oracle
 *      S[language][position] in {-1, 0..2047}
 * -- sound because F (T1+T2+T3) shows the real search is a function of
 * (language, token).  Every one of the 2049^160 oracle tables is covered.     */
#include "vf.h"
#include "spec.h"
#include "deps.h"
#include "lang.h"
#include "gf.h"
#include "c16_gen.h"

#define NL 10
typedef int cmp_fn(const void*, const void*);

/* Token texts are symbolic (up to TOKLEN bytes each): detection may depend on them
 * only through the word lookup, which the oracle answers per (language, position) */
#define TOKLEN 36
struct in_p6 {
    char tok[16][TOKLEN + 1];
    struct dep_in dep; int S[NL][16]; unsigned e; unsigned prior[16]; bool lang_out_null;
    bool history; int S0[NL][16];      /* an arbitrary earlier detection call on another phrase */
};
static struct in_p6 G;
static char TOK[16][TOKLEN + 1];
static char TOK0[16][TOKLEN + 1];
static int S_badlang, S_calls, S_badcmp;
cmp_fn* __CPROVER_file_local_lang_c_get_comparer(const polyseed_lang* lang);

static bool in_tokens(const char* p, const char (*base)[TOKLEN + 1]) {
#ifndef REPLAY
    return __CPROVER_same_object(p, base) && __CPROVER_POINTER_OFFSET(p) < 16 * (TOKLEN + 1)
        && __CPROVER_POINTER_OFFSET(p) % (TOKLEN + 1) == 0;
#else
    return (uintptr_t)p >= (uintptr_t)base && (uintptr_t)p < (uintptr_t)base + 16 * (TOKLEN + 1)
        && ((uintptr_t)p - (uintptr_t)base) % (TOKLEN + 1) == 0;
#endif
}
static long tok_index(const char* p, const char (*base)[TOKLEN + 1]) {
    return (long)(((uintptr_t)p - (uintptr_t)base) / (TOKLEN + 1));
}

int __CPROVER_file_local_lang_c_lang_search(const polyseed_lang* lang, const char* word, cmp_fn* cmp) {
    S_calls++;
    DEP_TICK();
    /* every language is searched with the comparator its own flags select */
    if (cmp != __CPROVER_file_local_lang_c_get_comparer(lang)) S_badcmp++;
    int li = -1;
    for (int i = 0; i < NL; ++i) if (lang == polyseed_get_lang(i)) li = i;
    if (in_tokens(word, TOK0)) {                     /* token of the earlier phrase */
        if (li < 0) { S_badlang++; return -1; }
        return G.S0[li][tok_index(word, TOK0)];
    }
    if (li < 0 || !in_tokens(word, TOK)) { S_badlang++; return -1; }
    long wi = tok_index(word, TOK);
    return G.S[li][wi];
}

static bool all_found(int l) {
    for (int w = 0; w < 16; ++w) if (G.S[l][w] < 0) return false;
    return true;
}

static int wipes_whole(size_t n) {
    int c = 0;
    for (int k = 0; k < L_mz_calls && k < DEP_MAX_MZ; ++k) {
#ifndef REPLAY
        if (L_mz[k].n == n && L_mz[k].objsize == n && L_mz[k].offset == 0) c++;
#else
        if (L_mz[k].n == n) c++;
#endif
    }
    return c;
}

VF_DECL2(p6_auto, in_p6)
void p6_auto(void) {
    struct in_p6 IN = VF_IN(p6_auto);
    G = IN;
    for (int l = 0; l < NL; ++l) for (int w = 0; w < 16; ++w) VASSUME(G.S[l][w] >= -1 && G.S[l][w] < 2048);
    VASSUME(G.e < NL);
    dep_install(&G.dep);
    if (G.history) {
        /* history: results must not depend on what was decoded before (C13: the
         * library state is only the feature mask and the injected functions) */
        for (int l = 0; l < NL; ++l) for (int w = 0; w < 16; ++w) VASSUME(G.S0[l][w] >= -1 && G.S0[l][w] < 2048);
        polyseed_phrase phrase0;
        for (int w = 0; w < 16; ++w) { phrase0[w] = TOK0[w]; for (int i = 0; i <= TOKLEN; ++i) TOK0[w][i] = G.tok[15 - w][i]; TOK0[w][TOKLEN] = '\0'; }
        uint_fast16_t idx0[16];
        const polyseed_lang* lang0 = NULL;
        (void)polyseed_phrase_decode(phrase0, idx0, &lang0);
        S_calls = 0;
    }
    VASSERT(polyseed_get_num_langs() == NL, "P6 ten languages registered");
    for (int i = 0; i < NL; ++i) for (int j = 0; j < i; ++j)
        VASSERT(polyseed_get_lang(i) != polyseed_get_lang(j), "P6 registered languages are distinct objects");
    polyseed_phrase phrase;
    for (int w = 0; w < 16; ++w) { phrase[w] = TOK[w]; for (int i = 0; i <= TOKLEN; ++i) TOK[w][i] = G.tok[w][i]; TOK[w][TOKLEN] = '\0'; }
    uint_fast16_t idx[16];
    for (int w = 0; w < 16; ++w) idx[w] = G.prior[w];
    const polyseed_lang* sentinel = (const polyseed_lang*)&G;
    const polyseed_lang* lang = sentinel;
    polyseed_status st = polyseed_phrase_decode(phrase, idx, G.lang_out_null ? NULL : &lang);

    int cnt = 0, first = -1;
    for (int l = 0; l < NL; ++l) if (all_found(l)) { cnt++; if (first < 0) first = l; }
    if (cnt == 0) {
        VASSERT(st == POLYSEED_ERR_LANG, "P6 no language recognises all 16 tokens: language error");
        for (int w = 0; w < 16; ++w) VASSERT(idx[w] == G.prior[w], "P6 index output untouched when no language matches");
        if (!G.lang_out_null) VASSERT(lang == sentinel, "P6 language output untouched when no language matches");
    } else if (cnt == 1) {
        VASSERT(st == POLYSEED_OK, "P6 exactly one language recognises all tokens: success");
        for (int w = 0; w < 16; ++w) VASSERT(idx[w] == (uint_fast16_t)G.S[first][w], "P6 indices are those of the detected language");
        if (!G.lang_out_null) VASSERT(lang == polyseed_get_lang(first), "P6 detected language reported");
    } else {
        VASSERT(st == POLYSEED_ERR_MULT_LANG, "P6 two or more languages recognise all tokens: multiple-languages status");
    }
    VASSERT(S_badlang == 0, "P6 lookup only with registered languages and phrase tokens");
    VASSERT(S_badcmp == 0, "P6 each language is searched with the comparator selected by its own prefix/accent flags");

    /* explicit decoding with language e */
    uint_fast16_t idx2[16];
    for (int w = 0; w < 16; ++w) idx2[w] = G.prior[w];
    polyseed_status st2 = polyseed_phrase_decode_explicit(phrase, polyseed_get_lang((int)G.e), idx2);
    if (all_found((int)G.e)) {
        VASSERT(st2 == POLYSEED_OK, "P6 explicit lookup succeeds iff the language recognises all tokens");
        for (int w = 0; w < 16; ++w) VASSERT(idx2[w] == (uint_fast16_t)G.S[G.e][w], "P6 explicit indices");
        if (st == POLYSEED_OK && (int)G.e == first)
            for (int w = 0; w < 16; ++w) VASSERT(idx2[w] == idx[w], "P6 automatic detection agrees with explicit decoding in the detected language");
    } else {
        VASSERT(st2 == POLYSEED_ERR_LANG, "P6 explicit lookup: language error when a token is unknown");
    }
    VASSERT(dep_table_intact() && L_other_calls == 0, "FRAME dependency table unchanged");
    VASSERT(L_alloc_calls == 0 && L_free_calls == 0 && L_kdf_calls == 0 && L_rand_calls == 0 && L_time_calls == 0, "P6 no allocation or other dependency in word lookup");
    VEND();
}

/* C16: the word indices collected during automatic detection are a temporary
 * copy of secret material and must be wiped through the injected function   */
VF_DECL2(p6_wipe, in_p6)
void p6_wipe(void) {
    struct in_p6 IN = VF_IN(p6_wipe);
    G = IN;
    for (int l = 0; l < NL; ++l) for (int w = 0; w < 16; ++w) VASSUME(G.S[l][w] >= -1 && G.S[l][w] < 2048);
    dep_install(&G.dep);
    polyseed_phrase phrase;
    for (int w = 0; w < 16; ++w) { phrase[w] = TOK[w]; TOK[w][0] = '\0'; }
    uint_fast16_t idx[16];
    const polyseed_lang* lang = NULL;
    polyseed_status st = polyseed_phrase_decode(phrase, idx, &lang);
    (void)st;
    VASSERT(wipes_whole(sizeof(uint_fast16_t) * 16) >= 1, "P6 temporary word-index array wiped on every exit of automatic detection");
    C16_CHECK(polyseed_phrase_decode, "C16 every temporary aggregate of polyseed_phrase_decode is wiped as a whole object on every exit");
    /* explicit lookup keeps no copy */
    L_mz_calls = 0;
    uint_fast16_t idx2[16];
    (void)polyseed_phrase_decode_explicit(phrase, polyseed_get_lang(0), idx2);
    C16_CHECK(polyseed_phrase_decode_explicit, "C16 every temporary aggregate of polyseed_phrase_decode_explicit is wiped");
    VEND();
}
