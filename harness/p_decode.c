/* P5: the two decoders of src/polyseed.c as skeletons.  Real: polyseed_decode,
 * polyseed_decode_explicit, gf_poly_check, polyseed_poly_to_data,
 * polyseed_features_supported, polyseed_free.  Replaced by nondeterministic
 * stubs that promise only what P3/P4/P6 prove about the real functions:
 *   utf8_nfkd_lazy   -> writes an arbitrary NUL-terminated string into norm
 *   str_split        -> returns an arbitrary count 0..17, stores <= 16 pointers
 *   polyseed_phrase_decode(_explicit) -> arbitrary status of its documented set,
 *                       arbitrary indices < 2048 (and a language) on success   */
#include "vf.h"
#include "spec.h"
#include "deps.h"
#include "gf.h"
#include "storage.h"
#include "features.h"
#include "lang.h"
#include "c16_gen.h"

#define NS 8   /* size of the symbolic normalised string the stub delivers */

struct in_p5 {
    struct dep_in dep;
    unsigned mask, probe;            /* feature state, frame probe */
    unsigned coin;
    char str[NS];                    /* caller's phrase (content irrelevant to the skeleton) */
    char norm[NS];                   /* what normalisation delivers (first bytes) */
    unsigned norm_len;               /* ... and its length, up to POLYSEED_STR_SIZE-1 (the longest phrase fills the buffer) */
    int count;                       /* what the tokeniser returns */
    unsigned status;                 /* what word lookup returns */
    unsigned idx[16];
    bool lang_out_null;
    /* an arbitrary earlier decoding call (other coin, token count, lookup result) */
    bool history; unsigned h_coin; int h_count; unsigned h_status; unsigned h_idx[16]; bool h_explicit;
};

static struct in_p5 G;
static const polyseed_lang* const LANG_A = (const polyseed_lang*)&G.idx[0];   /* opaque language tokens */
static const polyseed_lang* const LANG_B = (const polyseed_lang*)&G.idx[1];

static int S_nfkd_calls, S_split_calls, S_pd_calls, S_pde_calls, S_bad_wiring;
static char S_nfkd_in_copy[NS];
static const char* S_nfkd_str; static char* S_nfkd_norm; static char* S_split_str;
static const char** S_split_words; static const char* const* S_pd_phrase; static const polyseed_lang* S_pde_lang;

size_t __CPROVER_file_local_dependency_h_utf8_nfkd_lazy(const char* str, polyseed_str norm) {
    S_nfkd_calls++; S_nfkd_str = str; S_nfkd_norm = norm; DEP_TICK();
    for (int i = 0; i < NS; ++i) S_nfkd_in_copy[i] = str[i];
    size_t n = 0;
    while (n < NS - 1 && G.norm[n] != '\0') { norm[n] = G.norm[n]; n++; }
    if (n == NS - 1) {
        /* a longer string: filler up to the symbolic length (contract of P3: the
         * result is NUL-terminated inside the buffer and its length is returned) */
        size_t len = G.norm_len % POLYSEED_STR_SIZE;
        for (size_t i = NS - 1; i < POLYSEED_STR_SIZE - 1; ++i) if (i < len) { norm[i] = 'x'; n = i + 1; }
    }
    norm[n] = '\0';
    return n;
}

int __CPROVER_file_local_polyseed_c_str_split(char* str, polyseed_phrase words) {
    S_split_calls++; S_split_str = str; S_split_words = words; DEP_TICK();
    /* the tokeniser must be given the normalised copy: same bytes as the normaliser delivered */
    for (int i = 0; i < NS - 1; ++i) { if (str[i] != G.norm[i]) S_bad_wiring++; if (G.norm[i] == '\0') break; }
    int c = G.count;
    for (int i = 0; i < 16 && i < c; ++i) words[i] = str;   /* some pointers into the buffer */
    return c;
}

static polyseed_status phrase_common(const polyseed_phrase phrase, uint_fast16_t idx_out[16]) {
    /* word lookup must be given the 16 tokens the tokeniser produced */
    for (int i = 0; i < 16; ++i) if (phrase[i] != S_split_str) S_bad_wiring++;
    if (G.status == POLYSEED_OK)
        for (int i = 0; i < 16; ++i) idx_out[i] = G.idx[i];
    return (polyseed_status)G.status;
}

polyseed_status polyseed_phrase_decode(const polyseed_phrase phrase,
    uint_fast16_t idx_out[POLYSEED_NUM_WORDS], const polyseed_lang** lang_out) {
    S_pd_calls++; S_pd_phrase = phrase; DEP_TICK();
    if (G.status == POLYSEED_OK && lang_out != NULL) *lang_out = LANG_A;
    return phrase_common(phrase, idx_out);
}

polyseed_status polyseed_phrase_decode_explicit(const polyseed_phrase phrase,
    const polyseed_lang* lang, uint_fast16_t idx_out[POLYSEED_NUM_WORDS]) {
    S_pde_calls++; S_pd_phrase = phrase; S_pde_lang = lang; DEP_TICK();
    return phrase_common(phrase, idx_out);
}

static int wipes_whole(size_t n) {
    int c = 0;
    for (int k = 0; k < L_mz_calls && k < DEP_MAX_MZ; ++k) {
#ifndef REPLAY
        if (L_mz[k].n == n && L_mz[k].objsize == n && L_mz[k].offset == 0) {
#else
        if (L_mz[k].n == n) {
#endif
            bool dup = false;
            for (int j = 0; j < k; ++j) if (L_mz[j].p == L_mz[k].p && L_mz[j].n == n) dup = true;
            if (!dup) c++;
        }
    }
    return c;
}

static void p5_common(bool explicit_lang) {
    VASSUME(G.coin < 2048 && G.probe < 32);
    VASSUME(G.count >= 0 && G.count <= 17);
    if (explicit_lang) VASSUME(G.status == POLYSEED_OK || G.status == POLYSEED_ERR_LANG);
    else VASSUME(G.status == POLYSEED_OK || G.status == POLYSEED_ERR_LANG || G.status == POLYSEED_ERR_MULT_LANG);
    for (int i = 0; i < 16; ++i) VASSUME(G.idx[i] < 2048);
    G.str[NS - 1] = '\0';
    dep_install(&G.dep);
    polyseed_enable_features(G.mask);
    gf_elem tbl[8];
    for (int i = 0; i < 8; ++i) tbl[i] = polyseed_mul2_table[i];
    char str0[NS];
    for (int i = 0; i < NS; ++i) str0[i] = G.str[i];
    if (G.history) {
        /* history: what was decoded before must not influence this call */
        struct in_p5 cur = G;
        VASSUME(G.h_coin < 2048 && G.h_count >= 0 && G.h_count <= 17);
        VASSUME(G.h_status == POLYSEED_OK || G.h_status == POLYSEED_ERR_LANG || (G.h_status == POLYSEED_ERR_MULT_LANG && !G.h_explicit));
        for (int i = 0; i < 16; ++i) VASSUME(G.h_idx[i] < 2048);
        G.coin = cur.h_coin; G.count = cur.h_count; G.status = cur.h_status;
        for (int i = 0; i < 16; ++i) G.idx[i] = cur.h_idx[i];
        polyseed_data* hs = NULL; const polyseed_lang* hl = NULL;
        if (cur.h_explicit) (void)polyseed_decode_explicit(G.str, (polyseed_coin)G.coin, LANG_B, &hs);
        else (void)polyseed_decode(G.str, (polyseed_coin)G.coin, &hl, &hs);
        G = cur;
        dep_install(&G.dep);
        dep_reset_logs();
        S_nfkd_calls = S_split_calls = S_pd_calls = S_pde_calls = S_bad_wiring = 0;
    }

    polyseed_data dummy; polyseed_data* out = &dummy;
    const polyseed_lang* lang = LANG_B;
    polyseed_status st;
    if (explicit_lang) st = polyseed_decode_explicit(G.str, (polyseed_coin)G.coin, LANG_B, &out);
    else st = polyseed_decode(G.str, (polyseed_coin)G.coin, G.lang_out_null ? NULL : &lang, &out);

    /* expected: word count, then language / multiple languages, then checksum,
     * then memory, then unsupported features */
    unsigned c[16];
    for (int i = 0; i < 16; ++i) c[i] = G.idx[i];
    c[1] ^= G.coin;
    uint8_t sec[32]; unsigned b, f;
    spec_unpack(c, sec, &b, &f);
    polyseed_status want;
    if (G.count != 16) want = POLYSEED_ERR_NUM_WORDS;
    else if (G.status != POLYSEED_OK) want = (polyseed_status)G.status;
    else if (spec_eval(c) != 0) want = POLYSEED_ERR_CHECKSUM;
    else if (G.dep.alloc_fail[0]) want = POLYSEED_ERR_MEMORY;
    else if (!spec_supported(f, G.mask)) want = POLYSEED_ERR_UNSUPPORTED;
    else want = POLYSEED_OK;
    VASSERT(st == want, "P5 status precedence: word count, language, checksum, memory, unsupported");

    /* pipeline wiring */
    VASSERT(S_nfkd_calls == 1, "P5 the phrase is normalised once");
    for (int i = 0; i < NS; ++i) VASSERT(S_nfkd_in_copy[i] == str0[i] || (i > 0 && str0[i - 1] == '\0'), "P5 the caller's string is what gets normalised");
    VASSERT(S_split_calls == 1 && S_split_str != G.str, "P5 a copy (not the caller's input) is tokenised");
    VASSERT(S_bad_wiring == 0, "P5 the tokeniser receives the normalised text and word lookup receives its tokens");
    if (G.count == 16) {
        VASSERT((explicit_lang ? S_pde_calls : S_pd_calls) == 1 && (explicit_lang ? S_pd_calls : S_pde_calls) == 0,
            "P5 word lookup called once, in the requested mode");
        if (explicit_lang) VASSERT(S_pde_lang == LANG_B, "P5 explicit decoding uses the caller's language");
    } else {
        VASSERT(S_pd_calls == 0 && S_pde_calls == 0, "P5 wrong word count reported before any word lookup");
    }
    for (int i = 0; i < NS; ++i) VASSERT(G.str[i] == str0[i], "P5 input phrase not modified");

    if (st == POLYSEED_OK) {
        VASSERT(out == (polyseed_data*)L_blk[0].p && L_blk[0].live && L_blk[0].n == sizeof(polyseed_data), "P5 seed is the allocated block");
        VASSERT(out->birthday == b && out->features == f && out->checksum == c[0], "P5 decoded fields = published layout of (indices with coin removed)");
        for (int i = 0; i < 32; ++i) VASSERT(out->secret[i] == sec[i], "P5 decoded secret, padding zero");
        VASSERT(out->checksum == spec_checksum(out->secret, out->birthday, out->features), "P5 decoded seed is canonical (Inv)");
        VASSERT(L_alloc_calls == 1 && L_free_calls == 0, "P5 one allocation on success");
        if (!explicit_lang && !G.lang_out_null) VASSERT(lang == LANG_A, "P5 detected language reported");
    } else {
        VASSERT(out == &dummy, "P5 no seed on failure");
        VASSERT(dep_live_blocks() == 0, "P5 failed call leaves no seed allocated");
        VASSERT(L_foreign_free == 0, "P5 nothing foreign freed");
        if (want == POLYSEED_ERR_UNSUPPORTED) {
            VASSERT(L_free_calls == 1 && L_blk[0].freed_times == 1 && L_blk[0].wiped_before_free == 1,
                "P5 rejected seed wiped and returned exactly once");
        } else {
            VASSERT(L_free_calls == 0, "P5 nothing freed when nothing was allocated");
        }
        if (want == POLYSEED_ERR_NUM_WORDS || want == POLYSEED_ERR_LANG || want == POLYSEED_ERR_MULT_LANG || want == POLYSEED_ERR_CHECKSUM)
            VASSERT(L_alloc_calls == 0, "P5 no allocation before the checksum has passed");
        if (!explicit_lang && !G.lang_out_null && G.status != POLYSEED_OK) VASSERT(lang == LANG_B, "P5 language output untouched when lookup fails");
    }
    /* temporaries: the phrase copy, the token array and the polynomial are
     * wiped as whole objects through the injected function on every exit */
    VASSERT(wipes_whole(sizeof(polyseed_str)) >= 1, "P5 phrase copy wiped on every exit");
    VASSERT(wipes_whole(sizeof(polyseed_phrase)) >= 2 || sizeof(polyseed_phrase) != sizeof(gf_poly), "P5 token array and polynomial wiped on every exit");
    if (explicit_lang) C16_CHECK(polyseed_decode_explicit, "C16 every temporary aggregate of polyseed_decode_explicit is wiped as a whole object on every exit");
    else C16_CHECK(polyseed_decode, "C16 every temporary aggregate of polyseed_decode is wiped as a whole object on every exit");
    VASSERT(L_rand_calls == 0 && L_time_calls == 0 && L_kdf_calls == 0 && L_nfc_calls == 0, "P5 no other dependency");
    /* frame */
    VASSERT(dep_table_intact(), "FRAME dependency table unchanged");
    VASSERT(polyseed_features_supported(G.probe) == spec_supported(G.probe, G.mask), "FRAME feature state unchanged");
    for (int i = 0; i < 8; ++i) VASSERT(polyseed_mul2_table[i] == tbl[i], "FRAME GF table unchanged");
    VASSERT(L_other_calls == 0, "FRAME no undocumented dependency call");
}

VF_DECL2(p5_decode, in_p5)
void p5_decode(void) {
    struct in_p5 IN = VF_IN(p5_decode);
    G = IN;
    p5_common(false);
    VEND();
}

VF_DECL2(p5_decode_explicit, in_p5)
void p5_decode_explicit(void) {
    struct in_p5 IN = VF_IN(p5_decode_explicit);
    G = IN;
    p5_common(true);
    VEND();
}
