/* P2: real polyseed_encode (src/polyseed.c) with write_str replaced by a logging
 * stub, on a harness-made language object whose 2048 word pointers identify
 * their index.  p2_layout decides the published layout / coin / separator /
 * composition wiring; c17_len decides the buffer bound with the real per-word
 * byte lengths of one language (-DLID=ko ...).                                */
#include "vf.h"
#include "spec.h"
#include "deps.h"
#include "gf.h"
#include "storage.h"
#include "lang.h"
#include "c16_gen.h"
#ifdef LID
#include "langdata_gen.h"
#define CAT_(a, b) a##b
#define CAT(a, b) CAT_(a, b)
#define WLEN CAT(WLEN_, LID)
#define NFCLEN CAT(NFCLEN_, LID)
#define SEPLEN CAT(SEPLEN_, LID)
#define SEPNFC CAT(SEPNFC_, LID)
#endif

struct seed_in { uint8_t secret[19]; unsigned birthday, features; unsigned checksum; };

static const char POOL[2048] = { 0 };
static const char SEP[4] = { 0 };
static polyseed_lang LNG;

static int W_calls;
static int W_idx[32];          /* >= 0: word index; -1: separator; -2: something else */
static char* W_base; static long W_off[32]; static long W_end;
static bool W_overflow;

void __CPROVER_file_local_polyseed_c_write_str(char** pos, const char* str) {
    DEP_TICK();
    if (W_calls == 0) W_base = *pos;
    long off = *pos - W_base;
    int k = W_calls < 32 ? W_calls : 31;
    long len;
    if (str == LNG.separator) { W_idx[k] = -1;
#ifdef LID
        len = SEPLEN;
#else
        len = 1;
#endif
    } else if (str >= POOL && str < POOL + 2048) { W_idx[k] = (int)(str - POOL);
#ifdef LID
        len = WLEN[str - POOL];
#else
        len = 1;
#endif
    } else { W_idx[k] = -2; len = 1; }
    W_off[k] = off;
    W_calls++;
#ifdef LID
    /* the phrase (plus terminator) must stay inside the public buffer size */
    if (off + len >= POLYSEED_STR_SIZE) W_overflow = true;
    VASSERT(off + len < POLYSEED_STR_SIZE, "C17 decomposed phrase is strictly shorter than the public phrase-buffer size");
#ifndef REPLAY
    /* ... and than the library's own temporary, whatever size that has */
    VASSERT((size_t)(off + len) < __CPROVER_OBJECT_SIZE(W_base), "C17 decomposed phrase stays inside the library's own temporary buffer");
    if ((size_t)(off + len) >= __CPROVER_OBJECT_SIZE(W_base)) W_overflow = true;
#endif
    if (!W_overflow) *pos += len;
#else
    **pos = (char)('A' + (k % 26));
    *pos += len;
#endif
    W_end = *pos - W_base;
}

static void lang_make(bool compose) {
    LNG.name = "x"; LNG.name_en = "x"; LNG.separator = SEP;
    LNG.is_sorted = true; LNG.has_prefix = false; LNG.has_accents = false; LNG.compose = compose;
    for (int i = 0; i < 2048; ++i) LNG.words[i] = &POOL[i];
}

static int wipes_whole(size_t n) {
    int c = 0;
    for (int k = 0; k < L_mz_calls && k < DEP_MAX_MZ; ++k) {
#ifndef REPLAY
        if (L_mz[k].n == n && L_mz[k].objsize == n && L_mz[k].offset == 0) c++;
#else
        if (L_mz[k].n == n) c++;
#endif
    }
    return c;
}

struct in_p2 { struct dep_in dep; struct seed_in s; uint8_t pad[13]; unsigned coin; bool compose; char out_prior[32]; unsigned mask;
    bool history; struct seed_in h_s; unsigned h_coin; };   /* an arbitrary earlier encoding of another seed */

VF_DECL2(p2_layout, in_p2)
void p2_layout(void) {
    struct in_p2 IN = VF_IN(p2_layout);
    VASSUME(IN.s.birthday < 1024 && IN.s.features < 32 && IN.s.checksum < 2048 && (IN.s.secret[18] & 0xC0) == 0);
    VASSUME(IN.coin < 2048);
    IN.dep.norm_out[DEP_STR_MAX] = '\0';
    dep_install(&IN.dep);
    polyseed_enable_features(IN.mask);
    lang_make(IN.compose);
    polyseed_data d, d0;
    d.birthday = IN.s.birthday; d.features = IN.s.features; d.checksum = IN.s.checksum;
    for (int i = 0; i < 32; ++i) d.secret[i] = i < 19 ? IN.s.secret[i] : IN.pad[i - 19];   /* padding arbitrary: must not matter */
    d0 = d;
    polyseed_str out;
    if (IN.history) {
        VASSUME(IN.h_s.birthday < 1024 && IN.h_s.features < 32 && IN.h_s.checksum < 2048 && (IN.h_s.secret[18] & 0xC0) == 0 && IN.h_coin < 2048);
        polyseed_data hd;
        hd.birthday = IN.h_s.birthday; hd.features = IN.h_s.features; hd.checksum = IN.h_s.checksum;
        for (int i = 0; i < 32; ++i) hd.secret[i] = i < 19 ? IN.h_s.secret[i] : 0;
        (void)polyseed_encode(&hd, &LNG, (polyseed_coin)IN.h_coin, out);
        dep_reset_logs();
        W_calls = 0; W_overflow = false;
    }
    for (int i = 0; i < 32; ++i) out[i] = IN.out_prior[i];
    size_t r = polyseed_encode(&d, &LNG, (polyseed_coin)IN.coin, out);

    unsigned c[16];
    spec_pack(IN.s.secret, IN.s.birthday, IN.s.features, c);
    c[0] = IN.s.checksum;
    c[1] ^= IN.coin;
    VASSERT(W_calls == 31, "P2 sixteen words and fifteen separators are written");
    for (int k = 0; k < 31; ++k) {
        if (k % 2 == 0) VASSERT(W_idx[k] == (int)c[k / 2], "P2 word k is the list entry of the published layout (check word first, coin XORed into word 2)");
        else VASSERT(W_idx[k] == -1, "P2 words are joined by the language's separator");
        VASSERT(W_off[k] == k, "P2 pieces are written consecutively");
    }
    if (IN.compose) {
        VASSERT(L_nfc_calls == 1, "P2 composing languages: the injected NFC is called exactly once");
        for (int k = 0; k < 31; ++k) VASSERT(L_nfc_in_copy[k] == (char)('A' + (k % 26)), "P2 NFC receives the joined phrase");
        VASSERT(L_nfc_in_copy[31] == '\0', "P2 NFC receives a NUL-terminated phrase");
        size_t e = 0; while (IN.dep.norm_out[e] != '\0') e++;
        VASSERT(r == e, "P2 returned length is the length of the composed phrase");
        for (size_t k = 0; k <= e; ++k) VASSERT(out[k] == IN.dep.norm_out[k], "P2 output is what the composer produced, NUL-terminated at the returned length");
    } else {
        VASSERT(L_nfc_calls == 0, "P2 other languages are not composed");
        VASSERT(r == 31, "P2 returned length = length of the joined phrase");
        for (int k = 0; k < 31; ++k) VASSERT(out[k] == (char)('A' + (k % 26)), "P2 output is the joined phrase");
        VASSERT(out[31] == '\0', "P2 output is NUL-terminated at the returned length");
    }
    VASSERT(L_nfkd_calls == 0 && L_kdf_calls == 0 && L_rand_calls == 0 && L_time_calls == 0 && L_alloc_calls == 0 && L_free_calls == 0, "P2 no other dependency");
    VASSERT(wipes_whole(sizeof(gf_poly)) >= 1, "P2 polynomial temporary wiped");
    VASSERT(wipes_whole(sizeof(polyseed_str)) >= 1, "P2 phrase temporary wiped");
    C16_CHECK(polyseed_encode, "C16 every temporary aggregate of polyseed_encode is wiped as a whole object");
    bool same = d.birthday == d0.birthday && d.features == d0.features && d.checksum == d0.checksum;
    for (int i = 0; i < 32; ++i) if (d.secret[i] != d0.secret[i]) same = false;
    VASSERT(same, "P2 encoding does not modify the seed");
    VASSERT(dep_table_intact() && L_other_calls == 0, "FRAME dependency table unchanged");
    VEND();
}

#ifdef LID
/* C17: all seeds the library can hold (Inv: check word = evaluation of the data
 * words) x all coins, real byte lengths of language LID                      */
struct in_c17 { struct dep_in dep; struct seed_in s; unsigned coin; };
VF_DECL2(c17_len, in_c17)
void c17_len(void) {
    struct in_c17 IN = VF_IN(c17_len);
    VASSUME(IN.s.birthday < 1024 && IN.s.features < 32 && (IN.s.secret[18] & 0xC0) == 0);
    VASSUME(IN.s.checksum == spec_checksum(IN.s.secret, IN.s.birthday, IN.s.features));
    VASSUME(IN.coin < 2048);
    IN.dep.norm_out[DEP_STR_MAX] = '\0';
    dep_install(&IN.dep);
    lang_make(false);
    polyseed_data d;
    d.birthday = IN.s.birthday; d.features = IN.s.features; d.checksum = IN.s.checksum;
    for (int i = 0; i < 32; ++i) d.secret[i] = i < 19 ? IN.s.secret[i] : 0;
    static polyseed_str out;
    size_t r = polyseed_encode(&d, &LNG, (polyseed_coin)IN.coin, out);
    VASSERT(W_calls == 31, "C17 sixteen words and fifteen separators");
    if (!W_overflow) VASSERT((long)r == W_end, "C17 returned length = length of the joined phrase");
    long nfc = 15 * SEPNFC;
    for (int k = 0; k < 31; k += 2) nfc += NFCLEN[W_idx[k] >= 0 ? W_idx[k] : 0];
    VASSERT(nfc < POLYSEED_STR_SIZE, "C17 composed phrase is strictly shorter than the public phrase-buffer size");
    VEND();
}
#endif
