/* Harness support macros.
 *
 * Three build modes of the same harness source:
 *   (default)  CBMC: VASSERT -> __CPROVER_assert, VASSUME -> __CPROVER_assume
 *   -DWITNESS  CBMC vacuity twin: every VASSERT is dropped and VEND() becomes
 *              __CPROVER_assert(0): the twin must come back FAILED, i.e. the
 *              assumptions are satisfiable and the end of the harness is
 *              reachable.
 *   -DREPLAY   native (gcc, ASan/UBSan) re-execution of a counterexample:
 *              the symbolic input struct is read from the initializer the
 *              driver generated from the CBMC trace.
 *
 * Harness files are never compiled with -DNDEBUG and never use <assert.h>.
 */
#ifndef VF_H
#define VF_H

#include <stddef.h>
#include <stdint.h>
#include <stdbool.h>

#ifdef REPLAY
#include <stdio.h>
#include <stdlib.h>
#include <string.h>
extern int vf_failed;
#define VASSUME(c) do { if (!(c)) { printf("REPLAY-ASSUME-FAILED: %s (%s:%d)\n", #c, __FILE__, __LINE__); exit(3); } } while (0)
#define VASSERT(c, m) do { if (!(c)) { printf("REPLAY-ASSERT-FAILED: %s (%s:%d)\n", m, __FILE__, __LINE__); vf_failed++; } } while (0)
#define VEND() ((void)0)
#else
#define VASSUME(c) __CPROVER_assume(c)
#ifdef WITNESS
#define VASSERT(c, m) ((void)(c))
#define VEND() __CPROVER_assert(0, "WITNESS end of harness reachable")
#else
#define VASSERT(c, m) __CPROVER_assert((c), m)
#define VEND() ((void)0)
#endif
#endif

/* symbolic inputs of harness <name>: struct in_<name>, drawn in one step so that
 * the driver can read the whole counterexample from one trace assignment */
#ifdef REPLAY
#define VF_WEAK __attribute__((weak))
#else
#define VF_WEAK
#endif
#define VF_DECL(name) struct in_##name nondet_in_##name(void) VF_WEAK;
/* several harness functions sharing one input struct */
#define VF_DECL2(name, st) struct st nondet_in_##name(void) VF_WEAK;
#define VF_IN(name) nondet_in_##name()

#endif
