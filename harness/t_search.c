/* T2: real lang_search (src/lang.c) + bsearch model on a 2048-entry language
 * whose comparator is an arbitrary sign function of the kind T1/T3 establish:
 *   sorted list : +1 below p, 0 at p (if there is a match), -1 above
 *   other lists : at most one 0, arbitrary non-zero signs elsewhere
 * Result must be the matching index, or -1.                                   */
#include "vf.h"
#include "polyseed.h"
#include "lang.h"

#ifndef NENT
#define NENT 2048
#endif

typedef int cmp_fn(const void*, const void*);
int __CPROVER_file_local_lang_c_lang_search(const polyseed_lang* lang, const char* word, cmp_fn* cmp);

struct in_t2_search { bool sorted, has_zero; unsigned p; unsigned signs; bool has_prefix, has_accents, compose; };
static struct in_t2_search G;
static polyseed_lang L;
/* a long key: the search may hand the comparator the key itself or a copy of it,
 * but it must be the whole key */
static const char KEYTEXT[] = "key-0123456789-abcdefghijklmnopqrstuvwxyz-0123456789-ABCDEFGHIJKLMNOPQRSTUVWXYZ-0123456789-end";
static const char* const KEY = KEYTEXT;
static bool same_text(const char* a, const char* b) {
    unsigned i = 0;
    while (a[i] != '\0' && a[i] == b[i]) i++;
    return a[i] == b[i];
}
static int S_calls, S_bad;
/* With -DSORTED=<0|1> the kind of list is a *constant* of the instance: symex then never enters the
 * other branch of lang_search (an assumption alone would not prune it, and the binary-search model
 * unwound to the linear scan's bound costs 20 GB). */
#ifdef SORTED
#define IS_SORTED (SORTED != 0)
#else
#define IS_SORTED (G.sorted)
#endif

static int stub_cmp(const void* a, const void* b) {
    long j = (const char* const*)b - &L.words[0];
#if !defined(SORTED) || SORTED
    /* bookkeeping only where it is cheap (binary search: <= 12 calls) */
    S_calls++;
    if (!same_text(*(const char* const*)a, KEY)) S_bad++;  /* the (whole) key handed through */
    if (j < 0 || j >= NENT) { S_bad++; return 0; }
#endif
    if (IS_SORTED) {
        if ((unsigned long)j < G.p) return 1;
        if ((unsigned long)j == G.p && G.has_zero) return 0;
        return -1;
    }
#ifdef LINEAR_FROM
    /* quick tier, tail of the list: entries below LINEAR_FROM compare concretely non-zero */
    if (j < LINEAR_FROM) return 1;
#endif
    if (G.has_zero && (unsigned long)j == G.p) return 0;
    return ((G.signs >> (j & 31)) & 1) ? 1 : -1;
}

VF_DECL(t2_search)
void t2_search(void) {
    struct in_t2_search IN = VF_IN(t2_search);
    G = IN;
    VASSUME(G.p <= NENT);
    if (G.has_zero) VASSUME(G.p < NENT);
#ifdef SORTED
    VASSUME(G.sorted == (SORTED != 0));
#endif
#ifdef LINEAR_FROM
    VASSUME(!G.has_zero || G.p >= LINEAR_FROM);     /* a match among the last entries, or none */
#endif
#ifdef LINEAR_PREFIX
    /* quick tier: the linear scan is followed only up to a match among the first
     * LINEAR_PREFIX entries (the loop then exits within the unwinding bound) */
    VASSUME(G.has_zero && G.p < LINEAR_PREFIX);
#endif
    L.is_sorted = IS_SORTED;
    /* the search must use the comparator it is given, whatever the other flags say */
    L.has_prefix = G.has_prefix; L.has_accents = G.has_accents; L.compose = G.compose;
    int r = __CPROVER_file_local_lang_c_lang_search(&L, KEY, stub_cmp);
    VASSERT(r == (G.has_zero ? (int)G.p : -1), "T2 search returns the unique matching index, or -1");
    VASSERT(S_bad == 0, "T2 comparator only ever sees the key and entries of the list");
    if (IS_SORTED) VASSERT(S_calls <= 12, "T2 binary search needs at most 12 probes");
    VEND();
}
