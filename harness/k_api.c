/* API-level harnesses on the real src/polyseed.c (+ gf.c, storage.c, features.c,
 * dependency.c): K7 keygen, K8 crypt, K9 create, P7 load, free, store/getters,
 * inject.  Dependencies are the logging nondeterministic stubs of stubs/deps.h. */
#include "vf.h"
#include "spec.h"
#include "deps.h"
#include "gf.h"
#include "storage.h"
#include "birthday.h"
#include "features.h"
#include "c16_gen.h"

struct seed_in { uint8_t secret[19]; unsigned birthday, features; unsigned checksum; };

/* representation invariant Inv of a seed handed out by the library */
static void seed_assume_inv(const struct seed_in* s) {
    VASSUME(s->birthday < 1024 && s->features < 32);
    VASSUME((s->secret[18] & 0xC0) == 0);
    VASSUME(s->checksum == spec_checksum(s->secret, s->birthday, s->features));
}
static void seed_fill(polyseed_data* d, const struct seed_in* s) {
    d->birthday = s->birthday; d->features = s->features; d->checksum = s->checksum;
    for (int i = 0; i < 32; ++i) d->secret[i] = i < 19 ? s->secret[i] : 0;
}
static bool seed_eq(const polyseed_data* a, const polyseed_data* b) {
    if (a->birthday != b->birthday || a->features != b->features || a->checksum != b->checksum) return false;
    for (int i = 0; i < 32; ++i) if (a->secret[i] != b->secret[i]) return false;
    return true;
}
static bool seed_inv(const polyseed_data* d) {
    if (!(d->birthday < 1024 && d->features < 32 && (d->secret[18] & 0xC0) == 0)) return false;
    for (int i = 19; i < 32; ++i) if (d->secret[i] != 0) return false;
    return d->checksum == spec_checksum(d->secret, d->birthday, d->features);
}

/* ---- frame: library state and a bystander seed are not touched -------- */
struct frame_in { unsigned mask; unsigned probe; struct seed_in other; };
struct frame { gf_elem tbl[8]; polyseed_data other, other0; unsigned mask, probe; };
static void frame_begin(struct frame* fr, const struct frame_in* in) {
    VASSUME(in->probe < 32);
    polyseed_enable_features(in->mask);      /* arbitrary reachable feature state */
    fr->mask = in->mask; fr->probe = in->probe;
    for (int i = 0; i < 8; ++i) fr->tbl[i] = polyseed_mul2_table[i];
    seed_fill(&fr->other, &in->other);
    fr->other0 = fr->other;
}
#define FRAME_END(fr) do { \
    VASSERT(dep_table_intact(), "FRAME injected dependency table unchanged"); \
    VASSERT(polyseed_features_supported((fr)->probe) == spec_supported((fr)->probe, (fr)->mask), "FRAME enabled-feature state unchanged"); \
    for (int i_ = 0; i_ < 8; ++i_) VASSERT(polyseed_mul2_table[i_] == (fr)->tbl[i_], "FRAME GF table unchanged"); \
    VASSERT(seed_eq(&(fr)->other, &(fr)->other0), "FRAME operations on one seed never affect another"); \
    VASSERT(L_other_calls == 0, "FRAME no dependency call beyond the documented ones"); \
} while (0)

/* whole-object wipe of a given size through the injected memzero (CBMC only:
 * object size and offset come from the pointer model) */
static int wipes_of_size(size_t n) {
    int c = 0;
    for (int k = 0; k < L_mz_calls && k < DEP_MAX_MZ; ++k) {
#ifndef REPLAY
        if (L_mz[k].n == n && L_mz[k].objsize == n && L_mz[k].offset == 0) {
#else
        if (L_mz[k].n == n) {
#endif
            bool dup = false;
            for (int j = 0; j < k; ++j) if (L_mz[j].p == L_mz[k].p && L_mz[j].n == n) dup = true;
            if (!dup) c++;
        }
    }
    return c;
}

/* ======================= K7 keygen ===================================== */
struct in_k7_keygen {
    struct dep_in dep; struct frame_in fr; struct seed_in s;
    unsigned coin; size_t key_size; uint8_t keybuf[32];
    bool history; struct seed_in h_s; unsigned h_coin; struct dep_in h_dep;   /* an arbitrary earlier derivation, with its own dependency answers */
};
VF_DECL(k7_keygen)
void k7_keygen(void) {
    struct in_k7_keygen IN = VF_IN(k7_keygen);
    seed_assume_inv(&IN.s);
    VASSUME(IN.coin < 2048);
    dep_install(&IN.dep);
    struct frame fr; frame_begin(&fr, &IN.fr);
    polyseed_data d, d0;
    seed_fill(&d, &IN.s); d0 = d;
    uint8_t key[32];
    for (int i = 0; i < 32; ++i) key[i] = IN.keybuf[i];
    if (IN.history) {
        seed_assume_inv(&IN.h_s); VASSUME(IN.h_coin < 2048);
        polyseed_data hd; seed_fill(&hd, &IN.h_s);
        uint8_t hk[32];
        dep_install(&IN.h_dep);
        polyseed_keygen(&hd, (polyseed_coin)IN.h_coin, 32, hk);
        dep_install(&IN.dep);
        dep_reset_logs();
    }
    polyseed_keygen(&d, (polyseed_coin)IN.coin, IN.key_size, key);
    VASSERT(L_kdf_calls == 1, "K7 KDF invoked exactly once");
    VASSERT(L_kdf[0].pwlen == 32, "K7 password length 32");
    for (int i = 0; i < 32; ++i)
        VASSERT(L_kdf[0].pw_copy[i] == (i < 19 ? IN.s.secret[i] : 0), "K7 password = 19 secret bytes zero-padded to 32");
    uint8_t salt[32];
    spec_salt_key(IN.coin, IN.s.birthday, IN.s.features, salt);
    VASSERT(L_kdf[0].saltlen == 32, "K7 salt length 32");
    for (int i = 0; i < 32; ++i)
        VASSERT(L_kdf[0].salt_copy[i] == salt[i], "K7 salt = 'POLYSEED key' 00 FF FF FF LE32(coin) LE32(birthday) LE32(features) 0000");
    VASSERT(L_kdf[0].iter == 10000, "K7 10000 iterations");
    VASSERT(L_kdf[0].key == key && L_kdf[0].keylen == IN.key_size, "K7 key buffer and length passed through unaltered");
    for (int i = 0; i < 32; ++i)
        VASSERT(key[i] == ((size_t)i < IN.key_size ? IN.dep.kdf_out[0][i] : IN.keybuf[i]), "K7 key not rewritten after the KDF returns");
    VASSERT(L_rand_calls == 0 && L_time_calls == 0 && L_alloc_calls == 0 && L_free_calls == 0
        && L_nfc_calls == 0 && L_nfkd_calls == 0, "K7 no other dependency is consulted");
    VASSERT(seed_eq(&d, &d0), "K7 key derivation does not modify the seed");
    C16_CHECK(polyseed_keygen, "C16 every temporary aggregate of polyseed_keygen (other than the public salt) is wiped");
    FRAME_END(&fr);
    VEND();
}

/* different (secret, coin, birthday, features) => different KDF inputs */
struct in_k7_inject {
    struct dep_in dep; struct seed_in s1, s2; unsigned coin1, coin2;
};
VF_DECL(k7_inject)
void k7_inject(void) {
    struct in_k7_inject IN = VF_IN(k7_inject);
    seed_assume_inv(&IN.s1); seed_assume_inv(&IN.s2);
    VASSUME(IN.coin1 < 2048 && IN.coin2 < 2048);
    dep_install(&IN.dep);
    polyseed_data a, b;
    seed_fill(&a, &IN.s1); seed_fill(&b, &IN.s2);
    uint8_t k1[32], k2[32];
    polyseed_keygen(&a, (polyseed_coin)IN.coin1, 32, k1);
    polyseed_keygen(&b, (polyseed_coin)IN.coin2, 32, k2);
    VASSERT(L_kdf_calls == 2, "K7 one KDF call per derivation");
    bool same_seed = IN.coin1 == IN.coin2 && IN.s1.birthday == IN.s2.birthday && IN.s1.features == IN.s2.features;
    for (int i = 0; i < 19; ++i) if (IN.s1.secret[i] != IN.s2.secret[i]) same_seed = false;
    bool same_inputs = L_kdf[0].pwlen == L_kdf[1].pwlen && L_kdf[0].saltlen == L_kdf[1].saltlen
        && L_kdf[0].iter == L_kdf[1].iter;
    for (int i = 0; i < 32; ++i) {
        if (L_kdf[0].pw_copy[i] != L_kdf[1].pw_copy[i]) same_inputs = false;
        if (L_kdf[0].salt_copy[i] != L_kdf[1].salt_copy[i]) same_inputs = false;
    }
    VASSERT(same_seed == same_inputs, "K7 KDF inputs identical iff secret, coin, birthday and features are identical");
    VEND();
}

/* ======================= K8 crypt ====================================== */
#ifndef PWMAX
#define PWMAX 12
#endif
struct in_k8_crypt {
    struct dep_in dep; struct frame_in fr; struct seed_in s;
    char pw[PWMAX + 1];
    bool history; struct seed_in h_s; char h_pw[4]; struct dep_in h_dep;   /* an arbitrary earlier password operation on another seed */
};
VF_DECL(k8_crypt)
void k8_crypt(void) {
    struct in_k8_crypt IN = VF_IN(k8_crypt);
    seed_assume_inv(&IN.s);
    IN.pw[PWMAX] = '\0';
#ifdef PW_PREFIX
    /* long passwords: a concrete ASCII prefix, the remaining bytes symbolic */
    for (int i = 0; i < PW_PREFIX; ++i) IN.pw[i] = 'p';
#endif
    IN.dep.norm_out[DEP_STR_MAX] = '\0';
    /* KDF is deterministic: same inputs, same output */
    for (int i = 0; i < 32; ++i) VASSUME(IN.dep.kdf_out[1][i] == IN.dep.kdf_out[0][i]);
    dep_install(&IN.dep);
    struct frame fr; frame_begin(&fr, &IN.fr);
    polyseed_data d, d0;
    seed_fill(&d, &IN.s); d0 = d;
    char pw0[PWMAX + 1];
    for (int i = 0; i <= PWMAX; ++i) pw0[i] = IN.pw[i];

    /* what the KDF must see: the password itself when it is ASCII, otherwise
     * whatever the injected NFKD returned for it (without terminator) */
    bool ascii = true; size_t plen = 0;
    while (IN.pw[plen] != '\0') { if ((unsigned char)IN.pw[plen] >= 0x80) ascii = false; plen++; }
    const char* expect = ascii ? IN.pw : IN.dep.norm_out;
    size_t elen = 0; while (expect[elen] != '\0') elen++;

#ifdef K8_LIGHT
    IN.history = false;        /* long-password cell: one application only */
#endif
    if (IN.history) {
        seed_assume_inv(&IN.h_s);
        IN.h_pw[3] = '\0';
        polyseed_data hd; seed_fill(&hd, &IN.h_s);
        IN.h_dep.norm_out[DEP_STR_MAX] = '\0';
        dep_install(&IN.h_dep);
        polyseed_crypt(&hd, IN.h_pw);
        dep_install(&IN.dep);
        dep_reset_logs();
    }
    polyseed_crypt(&d, IN.pw);

    VASSERT(L_kdf_calls == 1, "K8 KDF invoked exactly once");
    VASSERT(L_nfkd_calls == (ascii ? 0 : 1) && L_nfc_calls == 0, "K8 password normalised through the injected NFKD only when non-ASCII");
    if (!ascii) for (int i = 0; i <= PWMAX && i < DEP_IN_COPY; ++i) {
        VASSERT(L_nfkd_in_copy[i] == pw0[i], "K8 NFKD receives the caller's password");
        if (pw0[i] == '\0') break;
    }
    VASSERT(L_kdf[0].pwlen == elen, "K8 KDF password length excludes the terminator");
    for (size_t i = 0; i < elen; ++i)
        VASSERT(L_kdf[0].pw_copy[i] == (uint8_t)expect[i], "K8 KDF password = NFKD(password)");
    uint8_t salt[16]; spec_salt_mask(salt);
    VASSERT(L_kdf[0].saltlen == 16, "K8 salt length 16");
    for (int i = 0; i < 16; ++i) VASSERT(L_kdf[0].salt_copy[i] == salt[i], "K8 salt = 'POLYSEED mask' 00 FF FF");
    VASSERT(L_kdf[0].iter == 10000 && L_kdf[0].keylen == 32, "K8 10000 iterations, 32-byte mask");
    /* result */
    for (int i = 0; i < 19; ++i) {
        uint8_t e = IN.s.secret[i] ^ IN.dep.kdf_out[0][i];
        if (i == 18) e &= 0x3F;
        VASSERT(d.secret[i] == e, "K8 secret XOR first 19 mask bytes, top two bits of the 19th dropped");
    }
    for (int i = 19; i < 32; ++i) VASSERT(d.secret[i] == 0, "K8 padding stays zero");
    VASSERT(d.features == (IN.s.features ^ 16u), "K8 encrypted flag toggled, user features unchanged");
    VASSERT(d.birthday == IN.s.birthday, "K8 birthday unchanged");
    VASSERT(d.checksum == spec_checksum(d.secret, d.birthday, d.features), "K8 check value recomputed");
    VASSERT(seed_inv(&d), "K8 result is a canonical seed (Inv)");
    for (int i = 0; i <= PWMAX; ++i) VASSERT(IN.pw[i] == pw0[i], "K8 password not modified");
    VASSERT(L_rand_calls == 0 && L_time_calls == 0 && L_alloc_calls == 0 && L_free_calls == 0, "K8 no other dependency consulted");
    /* temporaries wiped through the injected function: poly, mask, pass_norm */
    VASSERT(wipes_of_size(sizeof(gf_poly)) >= 1, "K8 polynomial temporary wiped");
    VASSERT(wipes_of_size(32) >= 1, "K8 mask wiped");
    VASSERT(wipes_of_size(sizeof(polyseed_str)) >= 1, "K8 normalised password wiped");
    C16_CHECK(polyseed_crypt, "C16 every temporary aggregate of polyseed_crypt is wiped as a whole object");
#ifndef K8_LIGHT
    /* involution */
    polyseed_crypt(&d, IN.pw);
    VASSERT(seed_eq(&d, &d0), "K8 applying the same password twice restores the seed bit for bit");
#endif
    FRAME_END(&fr);
    VEND();
}

/* ======================= K9 create ===================================== */
struct in_k9_create { struct dep_in dep; struct frame_in fr; unsigned features; bool history; unsigned h_features; struct dep_in h_dep; };
VF_DECL(k9_create)
void k9_create(void) {
    struct in_k9_create IN = VF_IN(k9_create);
    dep_install(&IN.dep);
    struct frame fr; frame_begin(&fr, &IN.fr);
    polyseed_data dummy; polyseed_data* out = &dummy;
    if (IN.history) {          /* an arbitrary earlier creation */
        polyseed_data* hs = NULL;
        dep_install(&IN.h_dep);       /* other clock value, random bytes, allocator outcome */
        (void)polyseed_create(IN.h_features, &hs);
        dep_install(&IN.dep);
        dep_reset_logs();
    }
    polyseed_status st = polyseed_create(IN.features, &out);
    unsigned feat = IN.features & 7u;
    if (!spec_supported(feat, IN.fr.mask)) {
        VASSERT(st == POLYSEED_ERR_UNSUPPORTED, "K9 create refuses a user feature that is not enabled");
        VASSERT(L_alloc_calls == 0 && L_rand_calls == 0, "K9 refused before allocating or drawing randomness");
    } else if (IN.dep.alloc_fail[0]) {
        VASSERT(st == POLYSEED_ERR_MEMORY, "K9 allocation failure reported as memory status");
        VASSERT(L_rand_calls == 0, "K9 no randomness drawn after a failed allocation");
    } else {
        VASSERT(st == POLYSEED_OK, "K9 create succeeds");
    }
    if (st != POLYSEED_OK) {
        VASSERT(out == &dummy, "K9 no seed produced on failure");
        VASSERT(dep_live_blocks() == 0, "K9 failed call leaves nothing allocated");
    } else {
        VASSERT(out == (polyseed_data*)L_blk[0].p && L_blk[0].live && L_blk[0].n == sizeof(polyseed_data),
            "K9 the seed is the one block requested from the injected allocator");
        VASSERT(L_alloc_calls == 1 && L_free_calls == 0, "K9 exactly one allocation");
        VASSERT(L_rand_calls == 1 && L_rand_n == 19, "K9 exactly 19 random bytes requested, once");
        VASSERT(L_time_calls == 1, "K9 clock consulted once");
        VASSERT(L_kdf_calls == 0 && L_nfc_calls == 0 && L_nfkd_calls == 0, "K9 no other dependency");
        for (int i = 0; i < 19; ++i) {
            uint8_t e = IN.dep.rnd[i]; if (i == 18) e &= 0x3F;
            VASSERT(out->secret[i] == e, "K9 secret = the 19 delivered bytes, top two bits of the last dropped");
        }
        for (int i = 19; i < 32; ++i) VASSERT(out->secret[i] == 0, "K9 padding zero although fresh memory is arbitrary");
        uint64_t t = IN.dep.now;
        VASSERT(out->birthday < 1024, "K9 birthday index within 10 bits");
        uint64_t B = SP_EPOCH + (uint64_t)out->birthday * SP_STEP;
        if (t == UINT64_MAX || t < SP_EPOCH) {
            VASSERT(out->birthday == 0, "K9 clock before the epoch or (time_t)-1 gives the epoch");
        } else {
            VASSERT(B <= t, "K9 birthday (from the injected clock) never later than creation");
            if (t < SP_EPOCH + 1024 * SP_STEP) VASSERT(t < B + SP_STEP, "K9 birthday accurate to one month");
        }
        VASSERT(polyseed_get_birthday(out) == B, "K9 reported birthday = epoch + k*2629746");
        VASSERT(out->features == feat, "K9 stores exactly the requested three low bits");
        VASSERT(seed_inv(out), "K9 created seed is canonical (Inv)");
        VASSERT(wipes_of_size(sizeof(gf_poly)) >= 1, "K9 polynomial temporary wiped");
        C16_CHECK(polyseed_create, "C16 every temporary aggregate of polyseed_create is wiped as a whole object");
        VASSERT(polyseed_get_feature(out, 7) == feat && !polyseed_is_encrypted(out), "K9 queries on the new seed");
    }
    FRAME_END(&fr);
    VEND();
}

/* ======================= P7 load ======================================= */
struct in_p7_load { struct dep_in dep; struct frame_in fr; uint8_t buf[32]; bool history; uint8_t h_buf[32]; struct dep_in h_dep; };
VF_DECL(p7_load)
void p7_load(void) {
    struct in_p7_load IN = VF_IN(p7_load);
    dep_install(&IN.dep);
    struct frame fr; frame_begin(&fr, &IN.fr);
    polyseed_storage st_in;
    for (int i = 0; i < 32; ++i) st_in[i] = IN.buf[i];
    polyseed_data dummy; polyseed_data* out = &dummy;
    if (IN.history) {          /* an arbitrary earlier load of another buffer */
        polyseed_storage hb; polyseed_data* hs = NULL;
        for (int i = 0; i < 32; ++i) hb[i] = IN.h_buf[i];
        dep_install(&IN.h_dep);
        (void)polyseed_load(hb, &hs);
        dep_install(&IN.dep);
        dep_reset_logs();
    }
    polyseed_status st = polyseed_load(st_in, &out);

    /* expected outcome from the property text */
    unsigned v = IN.buf[8] | ((unsigned)IN.buf[9] << 8);
    unsigned birthday = v & 1023, features = v >> 10;
    unsigned chk = (IN.buf[30] | ((unsigned)IN.buf[31] << 8)) & 2047;
    polyseed_status want;
    if (IN.dep.alloc_fail[0]) want = POLYSEED_ERR_MEMORY;
    else if (!spec_image_format_ok(IN.buf)) want = POLYSEED_ERR_FORMAT;
    else if (spec_checksum(&IN.buf[10], birthday, features) != chk) want = POLYSEED_ERR_CHECKSUM;
    else if (!spec_supported(features, IN.fr.mask)) want = POLYSEED_ERR_UNSUPPORTED;
    else want = POLYSEED_OK;
    VASSERT(st == want, "P7 load status: memory, then format, checksum, unsupported, in that precedence");
    for (int i = 0; i < 32; ++i) VASSERT(st_in[i] == IN.buf[i], "P7 load does not modify its input");
    VASSERT(L_alloc_calls == 1 && L_blk[0].n == sizeof(polyseed_data), "P7 one allocation of the seed size");
    if (st != POLYSEED_OK) {
        VASSERT(out == &dummy, "P7 no seed on failure");
        VASSERT(dep_live_blocks() == 0, "P7 failed load leaves nothing allocated");
        VASSERT(L_foreign_free == 0, "P7 nothing foreign freed");
        if (!IN.dep.alloc_fail[0]) {
            VASSERT(L_free_calls == 1 && L_blk[0].freed_times == 1, "P7 the block is returned exactly once");
            VASSERT(L_blk[0].wiped_before_free == 1, "P7 the block is wiped before it is freed");
        } else {
            VASSERT(L_free_calls == 0, "P7 nothing to free after a failed allocation");
        }
    } else {
        VASSERT(out == (polyseed_data*)L_blk[0].p && L_blk[0].live && L_free_calls == 0, "P7 seed is the allocated block");
        VASSERT(out->birthday == birthday && out->features == features && out->checksum == chk, "P7 loaded fields");
        for (int i = 0; i < 32; ++i) VASSERT(out->secret[i] == (i < 19 ? IN.buf[10 + i] : 0), "P7 loaded secret, padding zero");
        VASSERT(seed_inv(out), "P7 loaded seed is canonical (Inv)");
        polyseed_storage back;
        polyseed_store(out, back);
        for (int i = 0; i < 32; ++i) VASSERT(back[i] == IN.buf[i], "P7 acceptance implies store reproduces the buffer");
    }
    if (!IN.dep.alloc_fail[0])
        VASSERT(wipes_of_size(sizeof(gf_poly)) >= 1 || st == POLYSEED_ERR_FORMAT, "P7 polynomial temporary wiped");
    /* (after a format error the polynomial was never filled in) */
    if (st != POLYSEED_ERR_MEMORY && st != POLYSEED_ERR_FORMAT)
        C16_CHECK(polyseed_load, "C16 every temporary aggregate of polyseed_load is wiped as a whole object");
    VASSERT(L_rand_calls == 0 && L_time_calls == 0 && L_kdf_calls == 0 && L_nfc_calls == 0 && L_nfkd_calls == 0, "P7 no other dependency");
    FRAME_END(&fr);
    /* a later call with a working allocator behaves normally */
    if (st == POLYSEED_ERR_MEMORY) {
        polyseed_data* out2 = &dummy;
        polyseed_status st2 = polyseed_load(st_in, &out2);
        polyseed_status want2;
        if (IN.dep.alloc_fail[1]) want2 = POLYSEED_ERR_MEMORY;
        else if (!spec_image_format_ok(IN.buf)) want2 = POLYSEED_ERR_FORMAT;
        else if (spec_checksum(&IN.buf[10], birthday, features) != chk) want2 = POLYSEED_ERR_CHECKSUM;
        else if (!spec_supported(features, IN.fr.mask)) want2 = POLYSEED_ERR_UNSUPPORTED;
        else want2 = POLYSEED_OK;
        VASSERT(st2 == want2, "P7 a call after an allocation failure behaves normally");
    }
    VEND();
}

/* store -> load round trip through the public API, and the getters */
struct in_p7_store { struct dep_in dep; struct frame_in fr; struct seed_in s; uint8_t prior[32]; unsigned qmask; };
VF_DECL(p7_store)
void p7_store(void) {
    struct in_p7_store IN = VF_IN(p7_store);
    seed_assume_inv(&IN.s);
    dep_install(&IN.dep);
    struct frame fr; frame_begin(&fr, &IN.fr);
    polyseed_data d, d0; seed_fill(&d, &IN.s); d0 = d;
    polyseed_storage img;
    for (int i = 0; i < 32; ++i) img[i] = IN.prior[i];
    polyseed_store(&d, img);
    C16_CHECK(polyseed_store, "C16 every temporary aggregate of polyseed_store is wiped as a whole object");
    uint8_t ref[32];
    spec_store(IN.s.secret, IN.s.birthday, IN.s.features, IN.s.checksum, ref);
    for (int i = 0; i < 32; ++i) VASSERT(img[i] == ref[i], "P7 store writes exactly the published image");
    VASSERT(seed_eq(&d, &d0), "P7 store does not modify the seed");
    VASSERT(polyseed_get_birthday(&d) == SP_EPOCH + (uint64_t)IN.s.birthday * SP_STEP, "P7 get_birthday = epoch + k*2629746");
    VASSERT(polyseed_get_feature(&d, IN.qmask) == (IN.s.features & IN.qmask & 7u), "P7 get_feature = stored user bits under the mask");
    VASSERT(polyseed_is_encrypted(&d) == ((IN.s.features & 16u) ? 1 : 0), "P7 is_encrypted = bit 4");
    VASSERT(seed_eq(&d, &d0), "P7 queries do not modify the seed");
    polyseed_data dummy; polyseed_data* out = &dummy;
    polyseed_status st = polyseed_load(img, &out);
    if (IN.dep.alloc_fail[0]) {
        VASSERT(st == POLYSEED_ERR_MEMORY, "P7 memory status");
    } else if (!spec_supported(IN.s.features, IN.fr.mask)) {
        VASSERT(st == POLYSEED_ERR_UNSUPPORTED, "P7 unsupported features refused by load");
    } else {
        VASSERT(st == POLYSEED_OK, "P7 every canonical supported seed survives store -> load");
        VASSERT(seed_eq(out, &d0), "P7 store -> load yields an identical seed");
    }
    VASSERT(L_kdf_calls == 0 && L_rand_calls == 0 && L_time_calls == 0, "P7 dependency use");
    FRAME_END(&fr);
    VEND();
}

/* ======================= free ========================================== */
struct in_h_free { struct dep_in dep; struct frame_in fr; bool null; };
VF_DECL(h_free)
void h_free(void) {
    struct in_h_free IN = VF_IN(h_free);
    dep_install(&IN.dep);
    struct frame fr; frame_begin(&fr, &IN.fr);
    if (IN.null) {
        polyseed_free(NULL);
        VASSERT(L_seq == 0, "FREE freeing NULL does nothing");
    } else {
        VASSUME(!IN.dep.alloc_fail[0]);
        polyseed_data* p = (polyseed_data*)dep_alloc(sizeof(polyseed_data));
        int seq0 = L_seq;
        polyseed_free(p);
        VASSERT(L_mz_calls == 1 && L_mz[0].p == (void*)p && L_mz[0].n == sizeof(polyseed_data), "FREE whole block wiped through the injected function");
        VASSERT(L_free_calls == 1 && L_blk[0].freed_times == 1 && !L_blk[0].live, "FREE block handed to the injected free exactly once");
        VASSERT(L_mz[0].seq == seq0 + 1 && L_blk[0].free_seq == seq0 + 2, "FREE wipe happens before free");
        VASSERT(L_blk[0].wiped_before_free == 1, "FREE block is all zero when free receives it");
        VASSERT(L_foreign_free == 0, "FREE nothing foreign freed");
    }
    FRAME_END(&fr);
    VEND();
}

/* ======================= inject ======================================== */
uint64_t __CPROVER_file_local_dependency_c_stdlib_time(void);
static uint64_t alt_time(void) { return 7; }
static void* alt_alloc(size_t n) { (void)n; return NULL; }
static void alt_free(void* p) { (void)p; }
static void alt_rand(void* p, size_t n) { (void)p; (void)n; }

struct in_h_inject { bool t1, a1, f1, t2, a2, f2, second, alt; bool enable; unsigned mask, probe; };
VF_DECL(h_inject)
void h_inject(void) {
    struct in_h_inject IN = VF_IN(h_inject);
    VASSUME(IN.probe < 32);
    if (IN.enable) polyseed_enable_features(IN.mask);      /* features configured before (re-)injection */
    polyseed_dependency d1 = DEP_TABLE;
    if (!IN.t1) d1.time = NULL;
    if (!IN.a1) d1.alloc = NULL;
    if (!IN.f1) d1.free = NULL;
    polyseed_inject(&d1);
    /* the struct is copied: overwriting the caller's copy changes nothing */
    memset(&d1, 0, sizeof(d1));
    bool t = IN.t1, a = IN.a1, f = IN.f1;
    polyseed_randbytes* want_rand = dep_randbytes;
    polyseed_time* want_time = dep_time; polyseed_malloc* want_alloc = dep_alloc; polyseed_mfree* want_free = dep_free;
    if (IN.second) {
        polyseed_dependency d2 = DEP_TABLE;
        if (IN.alt) { d2.time = alt_time; d2.alloc = alt_alloc; d2.free = alt_free; d2.randbytes = alt_rand;
                      want_time = alt_time; want_alloc = alt_alloc; want_free = alt_free; want_rand = alt_rand; }
        if (!IN.t2) d2.time = NULL;
        if (!IN.a2) d2.alloc = NULL;
        if (!IN.f2) d2.free = NULL;
        polyseed_inject(&d2);
        memset(&d2, 0, sizeof(d2));
        t = IN.t2; a = IN.a2; f = IN.f2;
    }
    VASSERT(polyseed_deps.randbytes == want_rand && polyseed_deps.pbkdf2_sha256 == dep_pbkdf2
        && polyseed_deps.memzero == dep_memzero && polyseed_deps.u8_nfc == dep_nfc
        && polyseed_deps.u8_nfkd == dep_nfkd, "INJECT mandatory entries are the injected ones (last injection wins)");
    VASSERT(polyseed_deps.time == (t ? want_time : &__CPROVER_file_local_dependency_c_stdlib_time), "INJECT clock: injected, or libc time exactly when NULL");
    VASSERT(polyseed_deps.alloc == (a ? want_alloc : &malloc), "INJECT allocator: injected, or libc malloc exactly when NULL");
    VASSERT(polyseed_deps.free == (f ? want_free : &free), "INJECT free: injected, or libc free exactly when NULL");
    VASSERT(polyseed_features_supported(IN.probe) == spec_supported(IN.probe, IN.enable ? IN.mask : 0),
        "INJECT the enabled-feature state is not touched by injection (the most recent enabling call wins)");
    VEND();
}
