"""Native replay of a CBMC counterexample against the real code.

The harness source is compiled a second time with gcc (-DREPLAY, ASan+UBSan)
together with the *real* translation units of /repo (same plain-char
configuration, same -DNDEBUG setting).  The symbolic input struct takes the values
of the CBMC trace.  Static functions of the real units are made reachable, and
functions the harness replaces by a spec stub are detached, by rewriting the
*preprocessed* text of the unit in the scratch directory (never /repo itself):
   static T f(args) {...}   ->   T f(args) {...}                 (export)
   T f(args) {...}          ->   T f(args); static T f__real(args) {...}   (stub)
A counterexample counts as reproduced when the native run reports a failed
VASSERT of the harness or a sanitizer error.
"""
import json
import os
import re
import subprocess

from . import core

VERIF = core.VERIF


def value_to_c(v):
    n = v.get("name")
    if n == "struct":
        parts = []
        for m in v.get("members", []):
            if m["name"].startswith("$pad"):
                continue
            parts.append(".%s = %s" % (m["name"], value_to_c(m["value"])))
        return "{ " + ", ".join(parts) + " }"
    if n == "array":
        els = sorted(v.get("elements", []), key=lambda e: e["index"])
        return "{ " + ", ".join(value_to_c(e["value"]) for e in els) + " }"
    if n == "integer":
        t = v.get("type", "")
        if t == "_Bool":
            return "1" if v.get("data") == "TRUE" else "0"
        b = v.get("binary")
        if b is None:
            return re.sub(r"[a-zA-Z]+$", "", str(v.get("data", "0")))
        x = int(b, 2)
        if (t.startswith("signed") or t in ("char", "int", "long", "short")) and b[0] == "1":
            x -= 1 << len(b)
            if x == -(1 << 63):
                return "(-9223372036854775807LL-1)"
            return "%dLL" % x if len(b) > 32 else "%d" % x
        return "%dULL" % x if len(b) > 32 else "%dU" % x
    if n == "pointer":
        return "0"
    if n == "union":
        return "{0}"
    return "0"


def find_inputs(q):
    for f in q.failed:
        if f.get("inputs"):
            return f["inputs"]
    return None


DEF_RE = r"(^|\n)(?P<head>(?:[A-Za-z_][\w]*[\s\*]+)+?)(?P<name>%s)\s*\((?P<args>[^;{)]*)\)\s*\{"


def rewrite_tu(text, exports, stubs):
    """text: preprocessed C; exports: static functions to make extern;
    stubs: functions whose definition is renamed away"""
    for f in exports:
        m = re.search(DEF_RE % re.escape(f), text)
        if not m:
            continue
        head = m.group("head")
        head2 = re.sub(r"\bstatic\b", "", head)
        head2 = re.sub(r"\binline\b", "", head2)
        text = text[:m.start("head")] + head2 + text[m.end("head"):]
    for f, mangled in stubs:
        m = re.search(DEF_RE % re.escape(f), text)
        if not m:
            continue
        head = m.group("head")
        head_ext = re.sub(r"\b(static|inline)\b", "", head)
        head_ext = re.sub(r"__attribute__\s*\(\(.*?\)\)", "", head_ext)
        target = ("vfstub_" + f) if mangled else f
        proto = "%s %s(%s);\n" % (head_ext.strip(), target, m.group("args"))
        new = proto + "static __attribute__((unused)) " + re.sub(r"\bstatic\b", "", head).strip() + \
            " " + f + "__real(" + m.group("args") + ") {"
        before, after = text[:m.start("head")], text[m.end():]
        if mangled:
            before = re.sub(r"\b%s\b" % re.escape(f), target, before)
            after = re.sub(r"\b%s\b" % re.escape(f), target, after)
        text = before + new + after
    return text


def native_replay(inst, q, workdir, inputs=None, run_timeout=120):
    h = inst.h
    func = h.get("func", inst.hname)
    inputs = inputs or find_inputs(q)
    if "b" in inst.cfg:
        return {"status": "not-replayable", "detail": "counterexample of CBMC's big-endian memory model: cannot be re-executed on this little-endian host"}
    if inputs is None:
        return {"status": "not-replayable", "detail": "no symbolic input assignment in the trace"}
    d = os.path.join(workdir, "replay-" + inst.tag)
    os.makedirs(d, exist_ok=True)
    hsrc = os.path.join(VERIF, "harness", h["src"])
    htext = open(hsrc).read()
    for e in h.get("extra", []):
        htext += open(os.path.join(VERIF, e)).read()
    cfgflags = ["-fsigned-char" if inst.cfg[0] == "s" else "-funsigned-char"]
    ndebug = [] if "d" in inst.cfg else ["-DNDEBUG"]
    inc = ["-I" + core.REPO + "/include", "-iquote", core.REPO + "/src", "-I" + VERIF + "/spec",
           "-I" + VERIF + "/harness", "-I" + VERIF + "/stubs", "-I" + VERIF + "/golden"] + ["-I" + d for d in getattr(inst, "gen_dirs", [])]
    alias = []
    srcs = []
    # which file-local symbols does the harness use?
    used = set(re.findall(r"__CPROVER_file_local_(\w+?)_([ch])_(\w+)", htext))
    for tu in inst.tus:
        if tu == "langflags":
            continue        # natively the real tables are linked (below)
        p = subprocess.run(["gcc", "-E", "-std=c11", "-DPOLYSEED_STATIC"] + cfgflags + ndebug + inc +
                           [os.path.join(core.REPO, "src", tu + ".c")], capture_output=True, text=True)
        if p.returncode != 0:
            return {"status": "error", "detail": "gcc -E failed: " + p.stderr[-500:]}
        exports = [fn for (f, ext, fn) in used if f == tu and ext == "c"]
        stubs = []
        for s_ in h.get("strip", {}).get(tu, []):
            m = re.match(r"__CPROVER_file_local_\w+?_[ch]_(\w+)$", s_)
            stubs.append((m.group(1), True) if m else (s_, False))
        exports = [e for e in exports if e not in [x[0] for x in stubs]]
        text = rewrite_tu(p.stdout, exports, stubs)
        # header statics exported from several units would clash: keep them static
        # in all but the first unit
        out = os.path.join(d, "real_" + tu + ".c")
        open(out, "w").write(text)
        srcs.append(out)
    stubbed = set()
    for tu, lst in h.get("strip", {}).items():
        for s_ in lst:
            stubbed.add(s_)
    for (f, ext, fn) in used:
        mangled = "__CPROVER_file_local_%s_%s_%s" % (f, ext, fn)
        alias.append("-D%s=%s" % (mangled, ("vfstub_" + fn) if mangled in stubbed else fn))
    # lang.c references the ten tables: the native build links the real ones even
    # when the CBMC query left them out
    if "lang" in inst.tus:
        for l in ("en", "jp", "ko", "es", "fr", "it", "cs", "pt", "zh_s", "zh_t"):
            if ("lang_" + l) not in inst.tus:
                srcs.append(os.path.join(core.REPO, "src", "lang_%s.c" % l))
    main = os.path.join(d, "replay_main.c")
    with open(main, "w") as fo:
        fo.write("#define REPLAY 1\n")
        for dd in inst.defs:
            k, _, v = dd.partition("=")
            fo.write("#define %s %s\n" % (k, v if v else "1"))
        fo.write('#include "%s"\n' % hsrc)
        for e in h.get("extra", []):
            fo.write('#include "%s"\n' % os.path.join(VERIF, e))
        fo.write("int vf_failed;\n")
        fo.write("__typeof__(nondet_in_%s()) nondet_in_%s(void) {\n" % (func, func))
        fo.write("  static const __typeof__(nondet_in_%s()) v = %s;\n  return v;\n}\n" % (func, value_to_c(inputs)))
        fo.write("int main(void) { %s(); if (vf_failed) { puts(\"REPLAY-REPRODUCED\"); return 1; }\n"
                 "  puts(\"REPLAY-NOT-REPRODUCED\"); return 0; }\n" % func)
    exe = os.path.join(d, "replay")
    cmd = ["gcc", "-std=gnu11", "-g", "-O1", "-w", "-fsanitize=address,undefined",
           "-fno-sanitize-recover=undefined", "-fno-omit-frame-pointer",
           "-ffunction-sections", "-fdata-sections", "-Wl,--gc-sections",
           "-DPOLYSEED_STATIC"] + cfgflags + inc + alias + [main] + srcs + ["-o", exe]
    p = subprocess.run(cmd, capture_output=True, text=True)
    if p.returncode != 0:
        return {"status": "error", "detail": "native build failed: " + p.stderr[-1500:]}
    try:
        r = subprocess.run([exe], capture_output=True, text=True, timeout=run_timeout,
                           env=dict(os.environ, ASAN_OPTIONS="detect_leaks=0:detect_stack_use_after_return=1",
                                    UBSAN_OPTIONS="print_stacktrace=1"))
    except subprocess.TimeoutExpired:
        return {"status": "reproduced", "hang": True, "inputs_c": value_to_c(inputs)[:20000],
                "detail": "native run did not terminate within %d s" % run_timeout}
    out = (r.stdout + "\n" + r.stderr)
    res = {"exit": r.returncode, "output": out[-3000:], "inputs_c": value_to_c(inputs)[:20000]}
    if "REPLAY-ASSUME-FAILED" in out:
        res["status"] = "assume-failed"
        res["detail"] = "native run left the harness assumptions: encoding mismatch"
    elif "REPLAY-REPRODUCED" in out or "REPLAY-ASSERT-FAILED" in out:
        res["status"] = "reproduced"
        res["detail"] = "; ".join(re.findall(r"REPLAY-ASSERT-FAILED: ([^\n]*)", out))[:1000]
    elif "AddressSanitizer" in out or "runtime error:" in out or r.returncode < 0:
        res["status"] = "reproduced"
        res["detail"] = "sanitizer/signal: " + "; ".join(
            re.findall(r"(ERROR: AddressSanitizer[^\n]*|runtime error:[^\n]*)", out))[:1000]
    else:
        res["status"] = "not-reproduced"
        res["detail"] = "native run finished without a failed assertion or sanitizer report"
    return res


def cmd_replay(path):
    from . import driver
    if not os.path.isabs(path):
        path = os.path.join(VERIF, path)
    rep = json.load(open(path))
    inst = driver.Instance(rep["harness"], cfg=rep["cfg"],
                           defs=[d for d in rep["defines"] if d not in
                                 core_defs(rep["harness"])], tus=rep.get("tus"))
    # generated headers (length tables, C16 obligations) are rebuilt from the current tree
    builder = core.Builder(os.path.join(core.BUILD_ROOT, "replay-%d" % os.getpid()))
    os.makedirs(builder.workdir, exist_ok=True)
    try:
        if inst.h.get("c16"):
            builder.c16_header(inst.cfg)
        if inst.h.get("langdata"):
            from . import langdata
            known, _ = driver.load_known()
            kp = {}
            for k in known:
                if k["key"] and k["key"].startswith("prefix-words-"):
                    words = [w for w in k["text"].split() if w.startswith("words=")]
                    if words:
                        kp[k["key"][len("prefix-words-"):]] = [(w.encode(), b"") for w in words[0][6:].split(",")]
            builder.gen_file("langdata_gen.h", lambda t: langdata.write_header(builder.langs(), t, kp))
    except core.BuildError as e:
        print("replay: cannot rebuild generated headers:", e)
    inst.gen_dirs = list(builder.gen_dirs)
    inputs = None
    for f in rep["failed"]:
        if f.get("inputs"):
            inputs = f["inputs"]
            break
    workdir = os.path.join(core.BUILD_ROOT, "replay-%d" % os.getpid())
    os.makedirs(workdir, exist_ok=True)
    try:
        res = native_replay(inst, None, workdir, inputs=inputs)
    finally:
        import shutil
        if os.environ.get("VF_KEEP") != "1":
            shutil.rmtree(workdir, ignore_errors=True)
    print(json.dumps({k: v for k, v in res.items() if k != "inputs_c"}, indent=1))
    for f in rep["failed"][:5]:
        print("cbmc: %s @ %s" % (f["description"], f["location"]))
    return 1 if res.get("status") == "reproduced" else 0


def core_defs(hname):
    from . import registry
    return registry.HARNESSES[hname].get("defs", [])
