"""C20 / C13 support: inventory of static-lifetime mutable objects of the library
(from the goto symbol tables of the current tree) and native ThreadSanitizer
confirmation of candidates."""
import json
import os
import re
import subprocess

from . import core

# library-wide mutable state known to the FRAME assertions of the harnesses
KNOWN_STATICS = {"polyseed_deps", "reserved_features", "polyseed_mul2_table", "languages"}
TUS = ("polyseed", "lang", "gf", "storage", "features", "dependency")


def inventory(builder, cfg="s"):
    objs = {}
    for tu in TUS:
        obj = builder.real_tu(cfg, tu)
        r = core.sh(["goto-instrument", "--show-symbol-table", "--json-ui", obj])
        try:
            data = json.loads(r.stdout)
        except Exception:
            raise core.BuildError("cannot read the symbol table of %s" % tu)
        st = {}
        for it in data:
            if isinstance(it, dict) and "symbolTable" in it:
                st = it["symbolTable"]
        for name, sym in st.items():
            loc = sym.get("location", {}) or {}
            f = loc.get("file", "")
            if "/src/" not in f and "/include/" not in f:
                continue
            if not sym.get("isStaticLifetime") or sym.get("isType") or sym.get("isExtern"):
                continue
            t = sym.get("type", {})
            if t.get("id") == "code" or name.startswith("__CPROVER"):
                continue
            const = bool(t.get("namedSub", {}).get("#constant"))
            objs[name] = {"name": name, "file": f, "function": loc.get("function", ""), "line": loc.get("line", ""),
                          "type": sym.get("prettyType", ""), "const": const}
    return objs


def tsan_stress(workdir, runs=3):
    """build tools/tsan_stress.c with the real sources under -fsanitize=thread and run it"""
    exe = os.path.join(workdir, "tsan_stress")
    srcs = [os.path.join(core.REPO, "src", f) for f in sorted(os.listdir(os.path.join(core.REPO, "src"))) if f.endswith(".c")]
    cmd = ["gcc", "-O1", "-g", "-fsanitize=thread", "-pthread", "-DNDEBUG", "-DPOLYSEED_STATIC",
           "-I" + core.REPO + "/include", os.path.join(core.VERIF, "tools", "tsan_stress.c")] + srcs + ["-o", exe]
    p = subprocess.run(cmd, capture_output=True, text=True)
    if p.returncode != 0:
        return {"status": "error", "detail": "tsan build failed: " + p.stderr[-800:]}
    races, wrong, out_tail = 0, 0, ""
    for _ in range(runs):
        try:
            r = subprocess.run([exe], capture_output=True, text=True, timeout=300,
                               env=dict(os.environ, TSAN_OPTIONS="halt_on_error=0 report_signal_unsafe=0"))
        except subprocess.TimeoutExpired:
            return {"status": "error", "detail": "tsan stress run timed out"}
        out = r.stdout + r.stderr
        races += len(re.findall(r"WARNING: ThreadSanitizer: data race", out))
        m = re.search(r"tsan_stress: (\d+) wrong results", out)
        wrong += int(m.group(1)) if m else 0
        if "ThreadSanitizer" in out:
            out_tail = out[:3000]
    return {"status": "race" if (races or wrong) else "clean", "races": races, "wrong_results": wrong,
            "runs": runs, "report": out_tail}
