"""vf driver: check / run / replay / list"""
import argparse
import hashlib
import json
import os
import shutil
import sys
import time

from . import core
from . import registry
from . import replay as replay_mod
from . import meta as meta_mod

VERIF = core.VERIF


def inst_tag(name, cfg, defs):
    t = name + "-" + cfg
    if defs:
        t += "-" + hashlib.sha1(" ".join(sorted(defs)).encode()).hexdigest()[:8]
    return t


class Instance:
    """harness x configuration x cell parameters"""

    def __init__(self, hname, cfg="s", defs=(), cap=None, rss=None, flags=None, label=None, tus=None, outer=None):
        self.h = registry.HARNESSES[hname]
        # outer=N: loops of the accent-insensitive comparators that CONTAIN other loops get the bound N
        # through --unwindset (computed from the current tree's loop list, see outer_unwindset); all
        # other loops keep --unwind.  Sound either way: unwinding assertions stay on.
        self.outer = outer
        self.hname = hname
        self.cfg = cfg
        self.defs = list(self.h.get("defs", [])) + list(defs)
        # caps are measured-time x >= 3 on an idle 16-core machine; VF_CAP_MULT gives slack on a loaded one
        self.cap = int((cap or self.h.get("cap", 120)) * float(os.environ.get("VF_CAP_MULT", "2")))
        self.rss = rss or self.h.get("rss", 1.0)
        base = list(self.h.get("flags", []))
        if flags and "--unwind" in flags and "--unwind" in base:
            k = base.index("--unwind")      # an instance-level bound replaces the harness default
            del base[k:k + 2]
        self.flags = base + list(flags or [])
        self.tus = list(tus) if tus is not None else list(self.h.get("tus", []))
        self.tag = inst_tag(hname, cfg, self.defs + self.flags + self.tus)
        self.label = label or (hname + "[" + cfg + (" " + " ".join(defs) if defs else "") + "]")
        self.query = None
        self.wquery = None
        self.build_error = None

    def build(self, builder):
        h = self.h
        try:
            src = os.path.join(VERIF, "harness", h["src"])
            objs = {}
            variants = (("main", []),) if h.get("nowitness") else (("main", []), ("wit", ["WITNESS"]))
            for variant, extra in variants:
                tag = self.tag + ("-w" if extra else "")
                hobj = builder.harness_obj(self.cfg, src, self.defs + extra, tag)
                xobjs = []
                for i, e in enumerate(h.get("extra", [])):
                    xobjs.append(builder.harness_obj(self.cfg, os.path.join(VERIF, e),
                                                     self.defs + extra, tag + "-x%d" % i))
                tus = []
                for tu in self.tus:
                    o = builder.real_tu(self.cfg, tu)
                    strip = h.get("strip", {}).get(tu)
                    if strip:
                        o = builder.strip_bodies(o, strip, self.tag)
                    tus.append(o)
                objs[variant] = builder.link([hobj] + xobjs + tus, tag, self.cfg)
            func = h.get("func", self.hname)
            if self.outer:
                us = outer_unwindset(objs["main"], self.outer)
                if us:
                    self.flags = self.flags + ["--unwindset", us]
            self.query = core.Query(self.label, objs["main"], func, self.flags, self.cap, self.rss,
                                    meta={"inst": self})
            if not h.get("nowitness"):
                self.wquery = core.Query(self.label + "#witness", objs["wit"], func,
                                         [f for f in self.flags], self.cap, self.rss, witness=True,
                                         meta={"inst": self})
        except core.BuildError as e:
            self.build_error = str(e)
        return self


def outer_unwindset(gb, bound, fn_pat=r"compare_\w*noaccent"):
    """--unwindset string giving `bound` to every loop of the matching functions that contains another
    loop.  Loop ids are numbered by back edge, so (structured code) loop L contains loop L' iff L' has a
    smaller number and a later head line.  Derived from the linked goto binary of the current tree on
    every run: a change that adds, removes or reorders loops gets the right classification, and a loop
    that needs more than its bound fails its unwinding assertion (inconclusive, never a silent pass)."""
    import re, subprocess
    out = subprocess.run(["goto-instrument", "--show-loops", gb], capture_output=True, text=True).stdout
    loops = {}
    for m in re.finditer(r"Loop (\S+)\.(\d+):\s*\n\s*file \S+ line (\d+) function (\S+)", out):
        loops.setdefault(m.group(1), []).append((int(m.group(2)), int(m.group(3))))
    items = []
    for fn, ls in sorted(loops.items()):
        if not re.search(fn_pat, fn):
            continue
        for num, line in ls:
            if any(n2 < num and l2 > line for n2, l2 in ls):
                items.append("%s.%d:%d" % (fn, num, bound))
    return ",".join(items)


def load_known():
    """known_findings.txt: 'known: property=<id> key=<key> <text>' and
    'fixed: property=<id> <commit> <text>' lines"""
    known, fixed = [], []
    p = os.path.join(VERIF, "known_findings.txt")
    if os.path.exists(p):
        for line in open(p):
            line = line.strip()
            if not line or line.startswith("#"):
                continue
            parts = line.split()
            kind = parts[0].rstrip(":")
            kv = dict(x.split("=", 1) for x in parts[1:] if "=" in x)
            ent = {"property": kv.get("property"), "key": kv.get("key"), "text": line}
            (known if kind == "known" else fixed).append(ent)
    return known, fixed


def default_mem_gb():
    """memory budget of the query scheduler: 75% of what is available (MemAvailable and, if set, the
    cgroup limit), at most 48 GB"""
    avail = 64.0
    try:
        for line in open("/proc/meminfo"):
            if line.startswith("MemAvailable:"):
                avail = int(line.split()[1]) / (1024.0 * 1024.0)
    except Exception:
        pass
    for f in ("/sys/fs/cgroup/memory.max", "/sys/fs/cgroup/memory/memory.limit_in_bytes"):
        try:
            v = open(f).read().strip()
            if v.isdigit():
                avail = min(avail, int(v) / float(1 << 30))
        except Exception:
            pass
    return max(4.0, min(48.0, 0.75 * avail))


def run_instances(insts, workdir, use_cache=True, verbose=True, witness=True):
    builder = core.Builder(workdir)
    # build sequentially-ish but with a thread pool: goto-cc is cheap
    import concurrent.futures as cf
    # real TUs first (shared)
    need = set()
    for i in insts:
        for tu in i.tus:
            need.add((i.cfg, tu))
    if any(i.h.get("langdata") for i in insts):
        from . import langdata
        langs = builder.langs()
        known, _ = load_known()
        kp = {}
        for k in known:
            if k["key"] and k["key"].startswith("prefix-words-"):
                lid = k["key"][len("prefix-words-"):]
                words = [w for w in k["text"].split() if w.startswith("words=")]
                if words:
                    kp[lid] = [(w.encode(), b"") for w in words[0][6:].split(",")]
        builder.gen_file("langdata_gen.h", lambda t: langdata.write_header(langs, t, kp))
    with cf.ThreadPoolExecutor(16) as ex:
        futs = [ex.submit(builder.real_tu, c, t) for (c, t) in need]
        for f in futs:
            try:
                f.result()
            except core.BuildError:
                pass  # surfaces again per instance
    for c in set(i.cfg for i in insts if i.h.get("c16")):
        try:
            builder.c16_header(c)
        except core.BuildError as e:
            for i in insts:
                if i.h.get("c16") and i.cfg == c:
                    i.build_error = str(e)
    with cf.ThreadPoolExecutor(16) as ex:
        list(ex.map(lambda i: i.build(builder) if not i.build_error else i, insts))
    for i in insts:
        i.gen_dirs = list(builder.gen_dirs)
    queries = []
    for i in insts:
        if i.build_error:
            continue
        queries.append(i.query)
        if witness and i.wquery is not None:
            queries.append(i.wquery)

    def progress(q):
        if verbose:
            print("  [%s] %-60s %6.1fs %s%s %s" % (
                q.verdict, q.name, q.wall,
                ("%dMB" % q.maxrss_mb) if q.maxrss_mb else "",
                " (cached)" if q.cached else "", q.note[:200]), flush=True)

    core.Scheduler(ncores=int(os.environ.get("VF_CORES", str(os.cpu_count() or 16))),
                   mem_gb=float(os.environ.get("VF_MEM_GB", str(default_mem_gb())))).run_all(
        queries, use_cache=use_cache, progress=progress)
    return insts


def cmd_check(args):
    pid = args.property
    tier = args.tier or os.environ.get("VERIF_TIER") or "quick"
    if tier not in ("quick", "thorough"):
        tier = "quick"
    seed = int(os.environ.get("VERIF_SEED", "0") or 0)
    if pid not in registry.PROPS:
        print("unknown property", pid)
        return 2
    P = registry.PROPS[pid]
    t0 = time.time()
    workdir = os.path.join(core.BUILD_ROOT, "%s-%s-%d" % (pid, tier, os.getpid()))
    os.makedirs(workdir, exist_ok=True)
    use_cache = os.environ.get("VF_NOCACHE") != "1"
    rc = 2
    try:
        insts = [Instance(**spec) for spec in registry.instances_for(pid, tier)]
        # VERIF_SEED only permutes scheduling order
        if seed:
            import random
            random.Random(seed).shuffle(insts)
        print("vf check %s tier=%s: %d harness instances (+ witness twins)" % (pid, tier, len(insts)), flush=True)
        run_instances(insts, workdir, use_cache=use_cache)
        extra = {}
        if P.get("post"):
            extra = P["post"](pid, tier, insts, workdir) or {}
        rc = conclude(pid, tier, seed, insts, time.time() - t0, workdir, extra)
    finally:
        if os.environ.get("VF_KEEP") != "1":
            shutil.rmtree(workdir, ignore_errors=True)
    return rc


def conclude(pid, tier, seed, insts, wall, workdir, extra):
    P = registry.PROPS[pid]
    known, fixed = load_known()
    known = [k for k in known if k["property"] == pid]
    violations = []
    inconclusive = []
    passed = 0
    nontrivial = 0
    qrecs = []
    samples = []
    for i in insts:
        if i.build_error:
            inconclusive.append((i.label, "build: " + i.build_error[-500:]))
            continue
        q, w = i.query, i.wquery
        rec = {"harness": i.label, "function": i.h.get("func", i.hname), "verdict": q.verdict,
               "properties_checked": q.nprops, "wall_s": round(q.wall, 2),
               "peak_rss_mb": q.maxrss_mb, "cached_verdict": q.cached,
               "witness_twin": (w.verdict if w else "not needed: harness has no assumption"), "cbmc_flags": i.flags,
               "cfg": {"s": "signed char", "u": "unsigned char", "sd": "signed char, assertions on",
                       "ud": "unsigned char, assertions on", "sb": "signed char, big-endian memory model"}.get(i.cfg, i.cfg),
               "defines": i.defs}
        if q.note:
            rec["note"] = q.note[:300]
        qrecs.append(rec)
        if q.verdict == "pass" and ((w and w.verdict == "pass") or (w is None and i.h.get("nowitness"))):
            passed += 1
            nontrivial += 1
        elif q.verdict == "pass":
            inconclusive.append((i.label, "witness twin: %s %s" % (w.verdict, w.note)))
        elif q.verdict == "fail":
            violations.append(i)
        elif q.verdict == "unwind":
            # a loop exceeded the bound derived from the input size: replay the
            # input natively -- a run that does not terminate is a violation
            # (termination is part of C14), anything else means the bound is too small
            try:
                rep = replay_mod.native_replay(i, q, workdir, run_timeout=30)
            except Exception as e:  # noqa
                rep = {"status": "error", "detail": repr(e)}
            if rep.get("hang"):
                q.hang_replay = rep
                violations.append(i)
            else:
                inconclusive.append((i.label, q.note + " (native run of the same input terminates: bound too small?)"))
        else:
            inconclusive.append((i.label, q.note))
    # write replay files, confirm natively
    os.makedirs(os.path.join(VERIF, "replays"), exist_ok=True)
    vio_lines = []
    known_lines = []
    for n, i in enumerate(violations):
        q = i.query
        path = os.path.join("replays", "%s-%s-%d.json" % (pid, i.tag, n))
        rep = {"property": pid, "harness": i.hname, "function": i.h.get("func", i.hname),
               "cfg": i.cfg, "defines": i.defs, "flags": i.flags, "tus": i.tus,
               "failed": q.failed, "repo_head": repo_head()}
        try:
            rep["native"] = getattr(q, "hang_replay", None) or replay_mod.native_replay(i, q, workdir)
        except Exception as e:  # noqa
            rep["native"] = {"status": "error", "detail": repr(e)}
        json.dump(rep, open(os.path.join(VERIF, path), "w"), indent=1)
        # known finding?
        kf = match_known(known, i, q)
        if kf:
            known_lines.append("KNOWN-FINDING: property=%s %s" % (pid, kf["text"].split(None, 2)[-1]))
            continue
        st = rep["native"].get("status")
        if st in ("reproduced", "not-replayable"):
            vio_lines.append("VIOLATION property=%s replay=%s" % (pid, path))
            for f in q.failed[:3]:
                print("    failing: %s @ %s" % (f["description"], f["location"]))
        else:
            inconclusive.append((i.label, "counterexample did not reproduce natively (%s): %s" % (
                st, str(rep["native"].get("detail", ""))[:300])))
    for k in extra.get("known_lines", []):
        known_lines.append(k)
    for v in extra.get("violations", []):
        vio_lines.append(v)
    for x in extra.get("inconclusive", []):
        inconclusive.append(x)

    PM = meta_mod.PROP_META.get(pid, {})
    used = sorted(set(i.hname for i in insts))
    functions = sorted(set(f for h in used for f in meta_mod.HARNESS_META.get(h, {}).get("fn", [])))
    bounds = {h: meta_mod.HARNESS_META.get(h, {}).get("bound", "") for h in used}
    stubs = {h: meta_mod.HARNESS_META[h]["stubs"] for h in used if meta_mod.HARNESS_META.get(h, {}).get("stubs")}
    solver_s = sum(r["wall_s"] for r in qrecs)
    ev = {
        "property_id": pid, "tier": tier, "seed": seed,
        "level": P.get("level", "model_checking"),
        "coverage": {
            "evaluations": len([r for r in qrecs if r["verdict"] in ("pass", "fail")]) + extra.get("evaluations", 0),
            "distinct_nontrivial": nontrivial + extra.get("distinct_nontrivial", 0),
            "rule": "one evaluation = one CBMC query (a harness instance: real functions + symbolic inputs "
                    "within the stated bounds) that returned a verdict; it counts as distinct and non-trivial "
                    "when its -DWITNESS twin (assertions only evaluated, assert(0) at the end) came back "
                    "FAILED, i.e. the assumptions are satisfiable and the end of the harness is reachable "
                    "(harnesses without any assumption - concrete table walks - need no twin)",
            "samples": [r for r in qrecs][:6],
            "queries": qrecs,
            "queries_passed": passed,
            "queries_failed": len(violations),
            "queries_inconclusive": len(inconclusive),
            "cbmc_properties_checked": sum(r["properties_checked"] or 0 for r in qrecs),
            "query_wall_s_total": round(solver_s, 1),
            "functions_encoded": functions,
            "bounds": bounds,
            "callee_stubs": stubs,
            "outside_claim": PM.get("outside", []),
            "composition": PM.get("composition", ""),
            "cbmc_checks": core.CBMC_CHECKS,
            "solver": "%s; SAT back end as in each query's cbmc_flags (cadical)" % core.tool_version(),
            "replay": "counterexamples are re-executed natively (gcc -fsanitize=address,undefined) against the real units; "
                      "only reproduced ones are reported",
            "exhaustive": False,
            "explanation": PM.get("explanation", "bounded symbolic execution of the real C units; see DESIGN.md section 5 " + pid),
        },
        "assumptions": meta_mod.DEP_ASSUMPTIONS + ["bounds: see coverage.bounds; outside: see coverage.outside_claim"],
        "wall_s": round(wall, 2),
        "violations": len(vio_lines),
    }
    ev["coverage"].update(extra.get("coverage", {}))
    # evidence/ only ever describes runs against /repo itself; trials against a
    # scratch worktree (VF_REPO) write elsewhere
    evdir = os.path.join(VERIF, "evidence") if core.REPO == "/repo" else os.path.join(core.BUILD_ROOT, "trial-evidence")
    os.makedirs(evdir, exist_ok=True)
    ev["coverage"]["repo"] = core.REPO
    ev["coverage"]["repo_head"] = repo_head()
    json.dump(ev, open(os.path.join(evdir, pid + ".json"), "w"), indent=1)
    for l in known_lines:
        print(l)
    for l in vio_lines:
        print(l)
    if vio_lines:
        print("RESULT %s %s: VIOLATION (%d) in %.0fs" % (pid, tier, len(vio_lines), wall))
        return 1
    if inconclusive:
        for lab, note in inconclusive:
            print("INCONCLUSIVE %s: %s" % (lab, note))
        print("RESULT %s %s: INCONCLUSIVE in %.0fs" % (pid, tier, wall))
        return 2
    print("RESULT %s %s: HOLDS within bounds (%d queries, %d non-vacuous) in %.0fs" % (
        pid, tier, len(qrecs), nontrivial, wall))
    return 0


def match_known(known, inst, q):
    for k in known:
        if k["key"] and k["key"] == inst.h.get("known_key"):
            return k
    return None


def repo_head():
    r = core.sh(["git", "-C", core.REPO, "rev-parse", "HEAD"])
    return r.stdout.strip()


def cmd_run(args):
    defs = args.D or []
    names = []
    for pat in args.harness:
        import fnmatch
        m = [n for n in registry.HARNESSES if fnmatch.fnmatch(n, pat)]
        names += m if m else [pat]
    insts = [Instance(n, cfg=args.cfg, defs=defs, cap=args.cap, rss=args.rss,
                      flags=(["--unwind", str(args.unwind)] if args.unwind else None),
                      tus=(args.tus.split(",") if args.tus else None), outer=args.outer) for n in names]
    workdir = os.path.join(core.BUILD_ROOT, "run-%d" % os.getpid())
    os.makedirs(workdir, exist_ok=True)
    bad = 0
    try:
        run_instances(insts, workdir, use_cache=not args.nocache, witness=not args.nowitness)
        for inst in insts:
            if inst.build_error:
                print(inst.label, "BUILD ERROR", inst.build_error)
                bad += 1
                continue
            q = inst.query
            if q.verdict != "pass":
                bad += 1
                print("verdict:", inst.label, q.verdict, q.note)
            for f in q.failed:
                print("  FAILED:", f["description"], "@", f["location"])
                if args.verbose and f.get("inputs"):
                    print("   inputs:", replay_mod.value_to_c(f["inputs"])[:3000])
            if q.verdict == "fail" and args.replay:
                r = replay_mod.native_replay(inst, q, workdir)
                print("  native replay:", r.get("status"), r.get("detail"), r.get("output", "")[-800:] if args.verbose else "")
    finally:
        if not args.keep:
            shutil.rmtree(workdir, ignore_errors=True)
    return 0 if not bad else 1


def cmd_list(args):
    for pid in sorted(registry.PROPS):
        for tier in ("quick", "thorough"):
            ins = registry.instances_for(pid, tier)
            print(pid, tier, len(ins), " ".join(sorted(set(s["hname"] for s in ins))))
    return 0


def cmd_replay(args):
    return replay_mod.cmd_replay(args.path)


def cmd_setup(args):
    r = core.sh(["cbmc", "--version"])
    print("cbmc", r.stdout.strip())
    r2 = core.sh(["goto-cc", "--version"])
    print("goto-cc", r2.stdout.strip())
    os.makedirs(core.CACHE_DIR, exist_ok=True)
    os.makedirs(core.BUILD_ROOT, exist_ok=True)
    return 0 if r.returncode == 0 and r2.returncode == 0 else 1


def main(argv):
    ap = argparse.ArgumentParser(prog="vf")
    sub = ap.add_subparsers(dest="cmd")
    c = sub.add_parser("check")
    c.add_argument("property")
    c.add_argument("--tier", default=None)
    r = sub.add_parser("run")
    r.add_argument("harness", nargs="+")
    r.add_argument("--cfg", default="s")
    r.add_argument("-D", action="append")
    r.add_argument("--cap", type=int, default=None)
    r.add_argument("--unwind", type=int, default=None)
    r.add_argument("--outer", type=int, default=None)
    r.add_argument("--tus", default=None)
    r.add_argument("--rss", type=float, default=None)
    r.add_argument("--nocache", action="store_true")
    r.add_argument("--nowitness", action="store_true")
    r.add_argument("--keep", action="store_true")
    r.add_argument("--replay", action="store_true")
    r.add_argument("-v", "--verbose", action="store_true")
    p = sub.add_parser("replay")
    p.add_argument("path")
    sub.add_parser("list")
    sub.add_parser("setup")
    args = ap.parse_args(argv)
    if args.cmd == "check":
        return cmd_check(args)
    if args.cmd == "run":
        return cmd_run(args)
    if args.cmd == "replay":
        return cmd_replay(args)
    if args.cmd == "list":
        return cmd_list(args)
    if args.cmd == "setup":
        return cmd_setup(args)
    ap.print_help()
    return 2
