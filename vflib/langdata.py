"""Auxiliary data extracted from /repo's current word tables by a native run
(tools/dump_langs.c): per-word byte lengths (NFKD as stored, and NFC), prefix
pairs, and the validation of the Unicode assumptions N1-N3 with Python's
unicodedata (and utf8proc through ctypes when available)."""
import json
import os
import subprocess
import unicodedata

from . import core

LANG_IDS = ["en", "jp", "ko", "es", "fr", "it", "cs", "pt", "zh_s", "zh_t"]
SYM = {"en": "polyseed_lang_en", "jp": "polyseed_lang_jp", "ko": "polyseed_lang_ko",
       "es": "polyseed_lang_es", "fr": "polyseed_lang_fr", "it": "polyseed_lang_it",
       "cs": "polyseed_lang_cs", "pt": "polyseed_lang_pt", "zh_s": "polyseed_lang_zh_s",
       "zh_t": "polyseed_lang_zh_t"}
NAME_EN = {"en": "English", "jp": "Japanese", "ko": "Korean", "es": "Spanish", "fr": "French",
           "it": "Italian", "cs": "Czech", "pt": "Portuguese", "zh_s": "Chinese (Simplified)",
           "zh_t": "Chinese (Traditional)"}


def dump(workdir, repo=None):
    repo = repo or core.REPO
    exe = os.path.join(workdir, "dump_langs")
    srcs = [os.path.join(repo, "src", f) for f in
            ["lang.c", "dependency.c"] + ["lang_%s.c" % l for l in LANG_IDS]]
    cmd = ["gcc", "-O0", "-DNDEBUG", "-DPOLYSEED_STATIC", "-I" + repo + "/include", "-iquote", repo + "/src",
           os.path.join(core.VERIF, "tools", "dump_langs.c")] + srcs + ["-o", exe]
    r = subprocess.run(cmd, capture_output=True, text=True)
    if r.returncode != 0:
        raise core.BuildError("dump_langs build failed: " + r.stderr[-1500:])
    r = subprocess.run([exe], capture_output=True, text=True, timeout=60)
    if r.returncode != 0:
        raise core.BuildError("dump_langs run failed: " + r.stderr[-500:])
    langs = json.loads(r.stdout)
    out = {}
    for L in langs:
        for k in ("name", "name_en", "separator"):
            L[k] = bytes.fromhex(L[k])
        L["words"] = [bytes.fromhex(w) for w in L["words"]]
        lid = [i for i in LANG_IDS if NAME_EN[i] == L["name_en"].decode("utf-8", "replace")]
        L["id"] = lid[0] if lid else None
        out[L["id"] or L["name_en"]] = L
    return langs


def nfc_len(b):
    try:
        return len(unicodedata.normalize("NFC", b.decode("utf-8")).encode("utf-8"))
    except UnicodeDecodeError:
        return len(b)


def prefix_pairs(words):
    """all (shorter, longer) pairs where one word is a byte prefix of another"""
    s = sorted(set(words))
    res = []
    for i, w in enumerate(s):
        j = i + 1
        while j < len(s) and s[j].startswith(w):
            res.append((w, s[j]))
            j += 1
    return res


def write_header(langs, path, known_prefix=None):
    known_prefix = known_prefix or {}
    with open(path, "w") as f:
        f.write("/* generated on every run from /repo's word tables -- auxiliary data */\n")
        f.write("#ifndef LANGDATA_GEN_H\n#define LANGDATA_GEN_H\n#include <stdint.h>\n")
        for L in langs:
            lid = L["id"]
            if lid is None:
                continue
            f.write("static const uint8_t WLEN_%s[2048] = {%s};\n" % (lid, ",".join(str(len(w)) for w in L["words"])))
            f.write("static const uint8_t NFCLEN_%s[2048] = {%s};\n" % (lid, ",".join(str(nfc_len(w)) for w in L["words"])))
            f.write("#define SEPLEN_%s %d\n#define SEPNFC_%s %d\n" % (lid, len(L["separator"]), lid, nfc_len(L["separator"])))
            if not L["is_sorted"]:
                perm = sorted(range(len(L["words"])), key=lambda i: L["words"][i])
                f.write("static const uint16_t PERM_%s[2048] = {%s};\n" % (lid, ",".join(map(str, perm))))
            if L["has_prefix"]:
                strip = bool(L["has_accents"])
                ab, pl = [], []
                for w in L["words"]:
                    seen, a, pln = 0, bytearray(), bytearray()
                    for c in w:
                        mark = strip and c >= 0x80
                        if not mark:
                            seen += 1
                            pln.append(c)
                        if seen <= 4:
                            a.append(c)
                    ab.append(bytes(a)); pl.append(bytes(pln))
                esc = lambda b: '"' + "".join("\\x%02x" % c for c in b) + '"'
                f.write("static const char* const ABBR_%s[2048] = {%s};\n" % (lid, ",".join(esc(x) for x in ab)))
                f.write("static const char* const PLAIN_%s[2048] = {%s};\n" % (lid, ",".join(esc(x) for x in pl)))
            kp = known_prefix.get(lid, [])
            f.write("#define NKNOWN_%s %d\n" % (lid, len(kp)))
            f.write("static const char* const KNOWN_PREFIX_%s[%d][2] = {%s};\n" % (
                lid, max(1, len(kp)),
                ",".join('{"%s","%s"}' % (cstr(a), cstr(b)) for a, b in kp) if kp else '{"",""}'))
        f.write("#endif\n")


def cstr(b):
    return "".join("\\x%02x" % c for c in b) if any(c >= 0x80 or c in (34, 92) for c in b) else b.decode()


def validate_unicode(langs):
    """N1-N3 on the real tables: returns dict of counts and list of failures"""
    fails = []
    n = 0
    for L in langs:
        sep = L["separator"].decode("utf-8")
        if unicodedata.normalize("NFKD", sep) != " ":
            fails.append("%s: separator does not normalise to one space" % L["name_en"])
        n += 1
        for w in L["words"]:
            try:
                u = w.decode("utf-8")
            except UnicodeDecodeError:
                fails.append("%s: word not UTF-8: %r" % (L["name_en"], w))
                continue
            n += 1
            if unicodedata.normalize("NFKD", u) != u:
                fails.append("%s: word not NFKD: %s" % (L["name_en"], u))
            if unicodedata.normalize("NFKD", unicodedata.normalize("NFC", u)) != u:
                fails.append("%s: NFC then NFKD changes word: %s" % (L["name_en"], u))
    return n, fails


def write_table_unit(L, path):
    """byte-exact re-emission of one language table for CBMC (goto-cc decodes
    u8"..." literals with non-ASCII characters wrongly; hex escapes are exact)"""
    def esc(b):
        return '"' + "".join("\\x%02x" % c for c in b) + '"'
    with open(path, "w") as f:
        f.write("/* generated from a gcc build of /repo/src/lang_%s.c -- byte-exact copy */\n" % L["id"])
        f.write('#include "lang.h"\n')
        f.write("POLYSEED_PRIVATE const polyseed_lang %s = {\n" % SYM[L["id"]])
        f.write("  .name = %s,\n  .name_en = %s,\n  .separator = %s,\n" % (esc(L["name"]), esc(L["name_en"]), esc(L["separator"])))
        f.write("  .is_sorted = %d, .has_prefix = %d, .has_accents = %d, .compose = %d,\n" % (
            L["is_sorted"], L["has_prefix"], L["has_accents"], L["compose"]))
        f.write("  .words = {\n")
        for w in L["words"]:
            f.write("    %s,\n" % esc(w))
        f.write("  }\n};\n")


def write_flags_unit(langs, path):
    """all registered language objects with their real names, separators and flags but
    without the word lists (for harnesses that replace the word lookup by an oracle)"""
    def esc(b):
        return '"' + "".join("\\x%02x" % c for c in b) + '"'
    with open(path, "w") as f:
        f.write("/* generated from a gcc build of /repo/src/lang_*.c: real flags, no words */\n")
        f.write('#include "lang.h"\n')
        for L in langs:
            if L["id"] is None:
                continue
            f.write("POLYSEED_PRIVATE const polyseed_lang %s = { .name = %s, .name_en = %s, .separator = %s,\n" % (
                SYM[L["id"]], esc(L["name"]), esc(L["name_en"]), esc(L["separator"])))
            f.write("  .is_sorted = %d, .has_prefix = %d, .has_accents = %d, .compose = %d };\n" % (
                L["is_sorted"], L["has_prefix"], L["has_accents"], L["compose"]))
