"""vf core: build real TUs with goto-cc, run CBMC queries, parse verdicts.

Everything is rebuilt from /repo's current working tree on every run.  Only
solver verdicts are cached, keyed by the sha256 of the final goto binary plus the
cbmc command line and tool version (see DESIGN.md 5.1).
"""
import hashlib
import json
import os
import re
import shutil
import subprocess
import sys
import tempfile
import threading
import time

VERIF = os.path.dirname(os.path.dirname(os.path.abspath(__file__)))
REPO = os.environ.get("VF_REPO", "/repo")
BUILD_ROOT = os.path.join(VERIF, ".build")
CACHE_DIR = os.path.join(VERIF, ".cache")

REAL_TUS = ["polyseed", "gf", "storage", "features", "dependency", "lang",
            "lang_en", "lang_jp", "lang_ko", "lang_es", "lang_fr", "lang_it",
            "lang_cs", "lang_pt", "lang_zh_s", "lang_zh_t"]

CBMC_CHECKS = ["--bounds-check", "--pointer-check", "--pointer-overflow-check",
               "--signed-overflow-check", "--undefined-shift-check",
               "--div-by-zero-check", "--pointer-primitive-check",
               "--unwinding-assertions", "--drop-unused-functions",
               "--no-malloc-may-fail"]

_tool_version = None


def tool_version():
    global _tool_version
    if _tool_version is None:
        _tool_version = subprocess.run(["cbmc", "--version"], capture_output=True,
                                       text=True).stdout.strip()
    return _tool_version


def sh(cmd, **kw):
    return subprocess.run(cmd, capture_output=True, text=True, **kw)


class BuildError(Exception):
    pass


class Builder:
    """goto-cc build of the real translation units for one configuration."""

    def __init__(self, workdir):
        self.workdir = workdir
        self.lock = threading.Lock()
        self.done = {}
        self.gen_dirs = []      # content-addressed directories of generated headers (added to the include path)
        self.gen_cache = {}

    def cfg_dir(self, cfg):
        d = os.path.join(self.workdir, cfg)
        os.makedirs(d, exist_ok=True)
        return d

    @staticmethod
    def cfg_flags(cfg):
        # cfg = "s" | "u" (plain char signedness) + optional "d" (assertions on)
        flags = ["-fsigned-char" if cfg[0] == "s" else "-funsigned-char"]
        if "d" not in cfg:
            flags.append("-DNDEBUG")
        if "b" in cfg:
            # big-endian memory model: must be chosen at compile time (cbmc --big-endian
            # has no effect on a goto binary, probed)
            flags.append("--big-endian")
        return flags

    def real_tu(self, cfg, tu):
        """compile /repo/src/<tu>.c alone; returns path of goto object"""
        key = (cfg, tu)
        with self.lock:
            if key in self.done:
                return self.done[key]
        out = os.path.join(self.cfg_dir(cfg), tu + ".o")
        src = os.path.join(REPO, "src", tu + ".c")
        if tu == "langflags":
            src = self.flags_unit()
        elif tu.startswith("lang_"):
            # CBMC's C front end mis-decodes u8"..." literals with non-ASCII
            # characters: the table units are re-emitted byte-exactly from a gcc
            # build of the same source (langdata.dump), see DESIGN.md section 2
            src = self.table_unit(tu[5:])
        cmd = ["goto-cc", "-c", "--export-file-local-symbols",
               "-I" + REPO + "/include", "-iquote", REPO + "/src",
               "-DPOLYSEED_STATIC", "-std=c11"] + self.cfg_flags(cfg) + \
              [src, "-o", out]
        r = sh(cmd)
        if r.returncode != 0:
            raise BuildError("goto-cc failed for %s: %s" % (tu, r.stderr[-2000:]))
        with self.lock:
            self.done[key] = out
        return out

    def langs(self):
        from . import langdata
        with self.lock:
            if getattr(self, "_langs", None) is None:
                self._langs = langdata.dump(self.workdir)
            return self._langs

    def gen_file(self, name, writer):
        """generated sources live in a content-addressed directory (.build/gen/<sha>/<name>): the same
        content always has the same path, so the goto binaries that embed the path in their source
        locations are reproducible and the verdict cache can be shared between runs"""
        tmp = os.path.join(self.workdir, "%s.%d.tmp" % (name, threading.get_ident()))
        writer(tmp)
        d = os.path.join(BUILD_ROOT, "gen", file_sha(tmp)[:20])
        os.makedirs(d, exist_ok=True)
        path = os.path.join(d, name)
        if os.path.exists(path):
            os.unlink(tmp)
        else:
            os.replace(tmp, path)
        with self.lock:
            if d not in self.gen_dirs:
                self.gen_dirs.append(d)
        return path

    def flags_unit(self):
        from . import langdata
        with self.lock:
            cached = self.gen_cache.get("langflags")
        if cached:
            return cached
        path = self.gen_file("gen_langflags.c", lambda t: langdata.write_flags_unit(self.langs(), t))
        with self.lock:
            self.gen_cache["langflags"] = path
        return path

    def table_unit(self, lid):
        from . import langdata
        with self.lock:
            cached = self.gen_cache.get("lang_" + lid)
        if cached:
            return cached
        L = [x for x in self.langs() if x["id"] == lid]
        if not L:
            raise BuildError("language %s is not registered in /repo (polyseed_get_lang)" % lid)
        path = self.gen_file("gen_lang_%s.c" % lid, lambda t: langdata.write_table_unit(L[0], t))
        with self.lock:
            self.gen_cache["lang_" + lid] = path
        return path

    # ---- C16: wipe obligations regenerated from the goto symbol tables -------
    C16_CLOSURE = {
        "polyseed_create": ["polyseed_create", "polyseed_data_to_poly", "gf_poly_encode", "gf_poly_eval", "gf_elem_mul2",
                            "birthday_encode", "make_features", "polyseed_features_supported"],
        "polyseed_encode": ["polyseed_encode", "polyseed_data_to_poly"],
        "polyseed_decode": ["polyseed_decode", "gf_poly_check", "gf_poly_eval", "gf_elem_mul2", "polyseed_poly_to_data",
                            "polyseed_features_supported", "polyseed_free"],
        "polyseed_decode_explicit": ["polyseed_decode_explicit", "gf_poly_check", "gf_poly_eval", "gf_elem_mul2",
                                     "polyseed_poly_to_data", "polyseed_features_supported", "polyseed_free"],
        "polyseed_load": ["polyseed_load", "polyseed_data_load", "load16", "polyseed_data_to_poly", "gf_poly_check",
                          "gf_poly_eval", "gf_elem_mul2", "polyseed_features_supported", "polyseed_free"],
        "polyseed_crypt": ["polyseed_crypt", "utf8_nfkd_lazy", "polyseed_data_to_poly", "gf_poly_encode", "gf_poly_eval",
                           "gf_elem_mul2"],
        "polyseed_keygen": ["polyseed_keygen", "store32"],
        "polyseed_store": ["polyseed_store", "polyseed_data_store", "store16"],
        "polyseed_free": ["polyseed_free"],
        "polyseed_phrase_decode": ["polyseed_phrase_decode", "get_comparer"],
        "polyseed_phrase_decode_explicit": ["polyseed_phrase_decode_explicit", "get_comparer"],
    }
    # public data only: the KDF salts (tag, coin, birthday, features) -- DESIGN.md C16
    C16_ALLOW = {("polyseed_keygen", "salt"), ("polyseed_crypt", "salt")}

    def c16_header(self, cfg):
        """header with, per API function, the sizes of the automatic aggregates
        (arrays/structs) declared in it and in the library functions it runs --
        each must be wiped as a whole object through the injected memzero"""
        with self.lock:
            cached = self.gen_cache.get("c16_" + cfg)
        if cached:
            return cached
        path = os.path.join(self.cfg_dir(cfg), "c16_gen.h")
        autos = {}
        listing = []
        for tu in ("polyseed", "lang", "gf", "storage", "features", "dependency"):
            obj = self.real_tu(cfg, tu)
            r = sh(["goto-instrument", "--show-symbol-table", "--json-ui", obj])
            try:
                data = json.loads(r.stdout)
            except Exception:
                raise BuildError("cannot read the symbol table of %s" % tu)
            st = {}
            for it in data:
                if isinstance(it, dict) and "symbolTable" in it:
                    st = it["symbolTable"]
            for name, sym in st.items():
                loc = sym.get("location", {}) or {}
                if "/src/" not in loc.get("file", "") and "/include/" not in loc.get("file", ""):
                    continue
                if sym.get("isType") or sym.get("isStaticLifetime"):
                    continue
                if sym.get("type", {}).get("id") not in ("array", "struct_tag", "struct", "union_tag", "union"):
                    continue
                if sym.get("isParameter") and sym.get("type", {}).get("id") == "array":
                    continue       # array parameters are pointers; struct parameters are by-value copies
                fn = loc.get("function", "") or name.split("::")[0]
                base = sym.get("baseName", "")
                if (fn, base) in self.C16_ALLOW:
                    continue
                ctype = re.sub(r"\[(\d+)l\]", r"[\1]", sym.get("prettyType", ""))
                ctype = ctype.replace("const ", "")
                autos.setdefault(fn, {})[name] = ctype
        # call-graph closure from each API function over the library's own
        # functions, not crossing the functions harnesses replace by stubs; the
        # fixed table C16_CLOSURE is the fallback / lower bound
        def base(n):
            m = re.match(r"__CPROVER_file_local_\w+?_[ch]_(\w+)$", n)
            return m.group(1) if m else n
        edges = {}
        for tu in ("polyseed", "lang", "gf", "storage", "features", "dependency"):
            r = sh(["goto-instrument", "--call-graph", self.real_tu(cfg, tu)])
            for line in r.stdout.splitlines():
                m = re.match(r"^(\S+) -> (\S+)$", line.strip())
                if m:
                    edges.setdefault(base(m.group(1)), set()).add(base(m.group(2)))
        # functions the harness of an API function replaces by stubs: their locals
        # are not part of that harness's obligations (they have their own harness)
        dec = {"polyseed_decode", "polyseed_decode_explicit"}
        stop = {"utf8_nfkd_lazy": dec, "str_split": dec,
                "polyseed_phrase_decode": dec, "polyseed_phrase_decode_explicit": dec,
                "write_str": {"polyseed_encode"},
                "lang_search": {"polyseed_phrase_decode", "polyseed_phrase_decode_explicit"},
                "polyseed_lang_check": set(self.C16_CLOSURE)}
        with open(path + ".tmp", "w") as f:
            f.write("/* generated from the goto symbol tables and call graphs of the current tree: automatic aggregates per API function */\n")
            for api, fixed in self.C16_CLOSURE.items():
                closure, todo = [], [api]
                while todo:
                    fn = todo.pop()
                    if fn in closure or (fn in stop and api in stop[fn]):
                        continue
                    closure.append(fn)
                    todo.extend(sorted(edges.get(fn, ())))
                for fn in fixed:
                    if fn not in closure:
                        closure.append(fn)
                ents = []
                for fn in closure:
                    for name, ctype in sorted(autos.get(fn, {}).items()):
                        ents.append((name, ctype))
                listing.append((api, ents))
                f.write("#define C16_N_%s %d\n" % (api, len(ents)))
                f.write("#define C16_OBL_%s { %s }\n" % (api, ", ".join("sizeof(%s) /* %s */" % (c, n) for n, c in ents) if ents else "0"))
        import shutil as _sh
        final = self.gen_file("c16_gen.h", lambda t: _sh.copyfile(path + ".tmp", t))
        os.unlink(path + ".tmp")
        self.c16_listing = listing
        with self.lock:
            self.gen_cache["c16_" + cfg] = final
        return final

    def harness_obj(self, cfg, src, defines, tag):
        out = os.path.join(self.cfg_dir(cfg), "h_" + tag + ".o")
        flags = ["-fsigned-char" if cfg[0] == "s" else "-funsigned-char"] + (["--big-endian"] if "b" in cfg else [])
        cmd = ["goto-cc", "-c", "-I" + REPO + "/include", "-iquote", REPO + "/src",
               "-I" + VERIF + "/spec", "-I" + VERIF + "/harness", "-I" + VERIF + "/stubs",
               "-I" + VERIF + "/golden"] + ["-I" + d for d in list(self.gen_dirs)] + [
               "-DPOLYSEED_STATIC", "-std=c11"] + flags + ["-D" + d for d in defines] + \
              [src, "-o", out]
        r = sh(cmd)
        if r.returncode != 0:
            raise BuildError("goto-cc failed for harness %s: %s" % (src, r.stderr[-3000:]))
        return out

    def strip_bodies(self, obj, fns, tag):
        if not fns:
            return obj
        out = obj[:-2] + "." + tag + ".o"
        cur = obj
        cmd = ["goto-instrument"]
        for f in fns:
            cmd += ["--remove-function-body", f]
        cmd += [cur, out]
        r = sh(cmd)
        if r.returncode != 0:
            raise BuildError("remove-function-body failed: %s" % r.stderr[-2000:])
        # goto-instrument only warns when the function does not exist
        for f in fns:
            if re.search(r"not found|no body|does not exist", r.stdout + r.stderr) and f in (r.stdout + r.stderr):
                raise BuildError("function to stub not found in %s: %s" % (obj, f))
        return out

    def link(self, objs, tag, cfg):
        out = os.path.join(self.cfg_dir(cfg), tag + ".gb")
        r = sh(["goto-cc"] + objs + ["-o", out])
        if r.returncode != 0:
            raise BuildError("link failed for %s: %s" % (tag, r.stderr[-3000:]))
        return out


def file_sha(path):
    h = hashlib.sha256()
    with open(path, "rb") as f:
        for blk in iter(lambda: f.read(1 << 20), b""):
            h.update(blk)
    return h.hexdigest()


def parse_cbmc_json(text):
    """returns (status, results, messages) ; status in success/failure/error"""
    try:
        data = json.loads(text)
    except Exception:
        # truncated output (killed) -> try to salvage
        return "error", [], ["unparsable cbmc output"]
    status = None
    results = []
    msgs = []
    for item in data:
        if not isinstance(item, dict):
            continue
        if "result" in item:
            results = item["result"]
        if "cProverStatus" in item:
            status = item["cProverStatus"]
        if item.get("messageType") in ("ERROR", "WARNING"):
            msgs.append(item.get("messageText", ""))
    return status or "error", results, msgs


class Query:
    """one cbmc invocation on a linked goto binary"""

    def __init__(self, name, gb, func, flags, cap_s, rss_gb, witness=False, meta=None):
        self.name = name
        self.gb = gb
        self.func = func
        self.flags = flags
        self.cap_s = cap_s
        self.rss_gb = rss_gb
        self.witness = witness
        self.meta = meta or {}
        self.verdict = None      # "pass" | "fail" | "inconclusive"
        self.failed = []         # failing properties (dicts)
        self.nprops = 0
        self.wall = 0.0
        self.solver_s = None
        self.maxrss_mb = None
        self.cached = False
        self.note = ""
        self.raw_path = None

    def cmdline(self):
        cmd = ["cbmc", self.gb, "--function", self.func, "--json-ui"]
        if self.witness:
            cmd += ["--no-standard-checks", "--no-unwinding-assertions",
                    "--drop-unused-functions", "--no-malloc-may-fail"]
        else:
            cmd += CBMC_CHECKS + ["--trace"]
        cmd += self.flags
        return cmd

    def cache_key(self):
        h = hashlib.sha256()
        h.update(file_sha(self.gb).encode())
        cl = self.cmdline()
        cl[1] = "GB"
        h.update(json.dumps(cl).encode())
        h.update(tool_version().encode())
        return h.hexdigest()

    def run(self, use_cache=True):
        key = self.cache_key()
        cpath = os.path.join(CACHE_DIR, key + ".json")
        if use_cache and os.path.exists(cpath):
            try:
                c = json.load(open(cpath))
                self.verdict = c["verdict"]
                self.failed = c["failed"]
                self.nprops = c["nprops"]
                self.wall = c["wall"]
                self.solver_s = c.get("solver_s")
                self.maxrss_mb = c.get("maxrss_mb")
                self.note = c.get("note", "")
                self.cached = True
                return self
            except Exception:
                pass
        t0 = time.time()
        outf = self.gb + "." + self.name.replace("/", "_") + (".wit" if self.witness else "") + ".json"
        self.raw_path = outf
        lim_kb = int(self.rss_gb * 3 * 1024 * 1024) if self.rss_gb else 0
        cmd = self.cmdline()
        # /usr/bin/time for peak RSS; timeout for the wall cap; ulimit -v for memory
        shell = "ulimit -v %d; exec /usr/bin/time -f 'VF_MAXRSS_KB=%%M' timeout -k 5 %d %s" % (
            max(lim_kb, 8 * 1024 * 1024), int(self.cap_s),
            " ".join("'" + c.replace("'", "'\\''") + "'" for c in cmd))
        with open(outf, "w") as fo:
            p = subprocess.run(["bash", "-c", shell], stdout=fo, stderr=subprocess.PIPE, text=True)
        self.wall = time.time() - t0
        m = re.search(r"VF_MAXRSS_KB=(\d+)", p.stderr or "")
        if m:
            self.maxrss_mb = int(m.group(1)) // 1024
        text = open(outf).read()
        if p.returncode == 124 or p.returncode == 137:
            self.verdict = "inconclusive"
            self.note = "timeout after %ds" % self.cap_s
        else:
            status, results, msgs = parse_cbmc_json(text)
            m = re.findall(r'Runtime decision procedure: ([0-9.]+)s', text)
            if m:
                self.solver_s = sum(float(x) for x in m)
            self.nprops = len(results)
            fails = [r for r in results if r.get("status") not in ("SUCCESS",)]
            nobody = sorted(set(r.get("description", "") for r in fails if "no body for callee" in r.get("description", "")))
            if nobody and not self.witness:
                # a library function without a body is given arbitrary results by CBMC:
                # neither a pass nor a failure of such a query means anything
                self.verdict = "inconclusive"
                self.note = "encoding incomplete: " + "; ".join(nobody)[:400]
            elif status == "error" or (not results):
                self.verdict = "inconclusive"
                self.note = "cbmc error rc=%d: %s %s" % (p.returncode, "; ".join(msgs)[-600:], (p.stderr or "")[-300:])
            elif self.witness:
                w = [r for r in results if "WITNESS" in r.get("description", "")]
                if w and w[0].get("status") == "FAILURE":
                    self.verdict = "pass"   # witness reachable as required
                else:
                    self.verdict = "fail"
                    self.note = "witness assertion not reachable: harness is vacuous"
            elif not fails and status == "success":
                self.verdict = "pass"
            else:
                unw = [r for r in fails if "unwinding assertion" in r.get("description", "")]
                real = [r for r in fails if r not in unw]
                if real:
                    self.verdict = "fail"
                    self.failed = [slim_result(r) for r in real]
                else:
                    # either the stated bound is too small or the loop really does not
                    # terminate on this input: the driver decides by replaying the input
                    self.verdict = "unwind"
                    self.failed = [slim_result(r) for r in unw]
                    self.note = "unwinding assertion failed: " + ", ".join(
                        r.get("property", "?") for r in unw)[:400]
        if self.verdict in ("pass", "fail") and use_cache is not None:
            os.makedirs(CACHE_DIR, exist_ok=True)
            tmp = cpath + ".%d.tmp" % os.getpid()
            json.dump({"verdict": self.verdict, "failed": self.failed, "nprops": self.nprops,
                       "wall": self.wall, "solver_s": self.solver_s,
                       "maxrss_mb": self.maxrss_mb, "note": self.note}, open(tmp, "w"))
            os.replace(tmp, cpath)
        if self.verdict == "pass" and self.raw_path and os.path.exists(self.raw_path):
            os.unlink(self.raw_path)
        return self


def slim_result(r):
    """keep description, location and the input assignments of the trace"""
    out = {"property": r.get("property"), "description": r.get("description"),
           "status": r.get("status")}
    loc = r.get("sourceLocation") or {}
    out["location"] = "%s:%s %s" % (loc.get("file", "?"), loc.get("line", "?"),
                                    loc.get("function", ""))
    inputs = None
    for step in r.get("trace", []) or []:
        if step.get("stepType") != "assignment":
            continue
        lhs = step.get("lhs", "")
        if step.get("hidden"):
            continue
        if lhs.startswith("return_value_nondet_in_") and "." not in lhs and "[" not in lhs:
            inputs = step.get("value")
            break
    out["inputs"] = inputs
    return out


class Scheduler:
    """runs queries on up to ncores workers while the sum of expected RSS stays
    under mem_gb"""

    def __init__(self, ncores=16, mem_gb=48):
        self.ncores = ncores
        self.mem_gb = mem_gb

    def run_all(self, queries, use_cache=True, progress=None):
        pending = sorted(queries, key=lambda q: -q.cap_s * (q.rss_gb or 1))
        running = []
        lock = threading.Lock()
        cond = threading.Condition(lock)
        state = {"mem": 0.0, "n": 0}

        def worker(q):
            try:
                q.run(use_cache)
            except Exception as e:  # noqa
                q.verdict = "inconclusive"
                q.note = "driver exception: %r" % (e,)
            with cond:
                state["mem"] -= q.rss_gb
                state["n"] -= 1
                cond.notify_all()
            if progress:
                progress(q)

        threads = []
        with cond:
            while pending:
                started = False
                for q in list(pending):
                    if state["n"] < self.ncores and (state["mem"] + q.rss_gb <= self.mem_gb or state["n"] == 0):
                        pending.remove(q)
                        state["mem"] += q.rss_gb
                        state["n"] += 1
                        t = threading.Thread(target=worker, args=(q,))
                        t.start()
                        threads.append(t)
                        started = True
                        break
                if not started:
                    cond.wait()
        for t in threads:
            t.join()
        return queries
