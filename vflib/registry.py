"""Harness and property tables."""

CAD = ["--sat-solver", "cadical"]

HARNESSES = {}


def H(name, **kw):
    kw.setdefault("func", name)
    HARNESSES[name] = kw


# ---------------------------------------------------------------- K layer
H("k1_mul2", src="k_gf.c", tus=["gf"], flags=CAD, cap=60, rss=0.5)
for n, cap in (("k2_eval", 120), ("k2_single", 240), ("k2_swap", 240), ("k2_unique", 240), ("k2_coin", 120)):
    H(n, src="k_gf.c", tus=["gf"], flags=CAD + ["--unwind", "17"], cap=cap, rss=1.0)

for n in ("k3_pack", "k3_unpack", "k3_round"):
    H(n, src="k_codec.c", tus=["gf"], flags=CAD + ["--unwind", "33"], cap=120, rss=1.0)
H("k4_birthday", src="k_codec.c", tus=[], flags=CAD, cap=120, rss=1.0)
H("k5_features", src="k_codec.c", tus=["features"], flags=CAD + ["--unwind", "4"], cap=60, rss=0.5)
H("k5_default", src="k_codec.c", tus=["features"], flags=CAD, cap=60, rss=0.5)
H("k6_store", src="k_codec.c", tus=["storage"], flags=CAD + ["--unwind", "33"], cap=120, rss=1.0)
H("k6_load", src="k_codec.c", tus=["storage"], flags=CAD + ["--unwind", "33"], cap=120, rss=1.0)

API_TUS = ["polyseed", "gf", "storage", "features", "dependency"]
H("k7_keygen", src="k_api.c", tus=API_TUS, flags=CAD + ["--unwind", "65"], cap=180, rss=1.5)
H("k7_inject", src="k_api.c", tus=API_TUS, flags=CAD + ["--unwind", "65"], cap=180, rss=1.5)
H("k8_crypt", src="k_api.c", tus=API_TUS, flags=CAD + ["--unwind", "65"], cap=300, rss=2.0)
H("k9_create", src="k_api.c", tus=API_TUS, flags=CAD + ["--unwind", "65"], cap=180, rss=1.5)
H("p7_load", src="k_api.c", tus=API_TUS, flags=CAD + ["--unwind", "65"], cap=180, rss=1.5)
H("p7_store", src="k_api.c", tus=API_TUS, flags=CAD + ["--unwind", "65"], cap=180, rss=1.5)
H("h_free", src="k_api.c", tus=API_TUS, flags=CAD + ["--unwind", "65"], cap=120, rss=1.0)
H("h_inject", src="k_api.c", tus=API_TUS, flags=CAD + ["--unwind", "65"], cap=120, rss=1.0)

P5_STRIP = {"polyseed": ["__CPROVER_file_local_polyseed_c_str_split",
                        "__CPROVER_file_local_dependency_h_utf8_nfkd_lazy"]}
for n in ("p5_decode", "p5_decode_explicit"):
    H(n, src="p_decode.c", tus=API_TUS, strip=P5_STRIP, flags=CAD + ["--unwind", "65"], cap=240, rss=2.0)

# T1 / T3-lemma: unwind = longest string + a few (skip loops are bounded by it)
for n in ("t1_accept", "t1_safety", "t1_comparer", "t3_lemma"):
    H(n, src="t_cmp.c", tus=["lang"], flags=CAD, cap=300, rss=2.0)

H("t2_search", src="t_search.c", tus=["lang"], extra=["stubs/bsearch.c"], flags=CAD, cap=300, rss=2.0)

P6_STRIP = {"lang": ["__CPROVER_file_local_lang_c_lang_search"]}
for n in ("p6_auto", "p6_wipe"):
    H(n, src="p_lang.c", tus=["lang", "dependency"], strip=P6_STRIP, flags=CAD + ["--unwind", "17"], cap=300, rss=3.0)

H("p1_write", src="p_str.c", tus=["polyseed", "dependency"], flags=CAD + ["--unwind", "98"], cap=120, rss=1.0)
H("p3_lazy", src="p_str.c", tus=["dependency"], flags=CAD + ["--unwind", "402"], cap=300, rss=2.0)
H("p4_split", src="p_str.c", tus=["polyseed", "dependency"], flags=CAD, cap=600, rss=3.0)

for n in ("t4_table", "t4_distinct", "t4_selffind"):
    H(n, src="t_table.c", tus=["lang"], extra=["stubs/bsearch.c"], langdata=True,
      flags=CAD + ["--unwind", "2050", "--object-bits", "14"], cap=600, rss=4.0)

P2_STRIP = {"polyseed": ["__CPROVER_file_local_polyseed_c_write_str"]}
H("p2_layout", src="p_encode.c", tus=API_TUS, strip=P2_STRIP, flags=CAD + ["--unwind", "2050", "--object-bits", "12"], cap=600, rss=6.0)
H("c17_len", src="p_encode.c", tus=API_TUS, strip=P2_STRIP, langdata=True, flags=CAD + ["--unwind", "2050", "--object-bits", "12"], cap=900, rss=8.0)

PROPS = {}


def I(hname, cfg="s", defs=(), **kw):
    d = {"hname": hname, "cfg": cfg, "defs": list(defs)}
    d.update(kw)
    return d


def instances_for(pid, tier):
    P = PROPS[pid]
    f = P["instances"]
    return f(tier)


PROPS["C02"] = {
    "instances": lambda tier: [I("k1_mul2"), I("k2_eval"), I("k2_single"), I("k2_swap"), I("k2_unique")],
}
