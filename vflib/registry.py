"""Harness and property tables."""

CAD = ["--sat-solver", "cadical"]

HARNESSES = {}


def H(name, **kw):
    kw.setdefault("func", name)
    HARNESSES[name] = kw


# ---------------------------------------------------------------- K layer
H("k1_mul2", src="k_gf.c", tus=["gf"], flags=CAD, cap=60, rss=0.5)
for n, cap in (("k2_eval", 120), ("k2_single", 240), ("k2_swap", 240), ("k2_unique", 240), ("k2_coin", 120)):
    H(n, src="k_gf.c", tus=["gf"], flags=CAD + ["--unwind", "17"], cap=cap, rss=1.0)

PROPS = {}


def I(hname, cfg="s", defs=(), **kw):
    d = {"hname": hname, "cfg": cfg, "defs": list(defs)}
    d.update(kw)
    return d


def instances_for(pid, tier):
    P = PROPS[pid]
    f = P["instances"]
    return f(tier)


PROPS["C02"] = {
    "instances": lambda tier: [I("k1_mul2"), I("k2_eval"), I("k2_single"), I("k2_swap"), I("k2_unique")],
}
