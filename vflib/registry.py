"""Harness and property tables."""

CAD = ["--sat-solver", "cadical"]

HARNESSES = {}


def H(name, **kw):
    kw.setdefault("func", name)
    HARNESSES[name] = kw


# ---------------------------------------------------------------- K layer
H("k1_mul2", src="k_gf.c", tus=["gf"], flags=CAD, cap=60, rss=0.5)
for n, cap in (("k2_eval", 120), ("k2_single", 240), ("k2_swap", 240), ("k2_unique", 240), ("k2_coin", 120)):
    H(n, src="k_gf.c", tus=["gf"], flags=CAD + ["--unwind", "17"], cap=cap, rss=1.0)

for n in ("k3_pack", "k3_unpack", "k3_round"):
    H(n, src="k_codec.c", tus=["gf"], flags=CAD + ["--unwind", "33"], cap=120, rss=1.0)
H("k4_birthday", src="k_codec.c", tus=[], flags=CAD, cap=120, rss=1.0)
H("k5_features", src="k_codec.c", tus=["features"], flags=CAD + ["--unwind", "4"], cap=60, rss=0.5)
H("k5_default", src="k_codec.c", tus=["features"], flags=CAD, cap=60, rss=0.5)
H("k6_store", src="k_codec.c", tus=["storage"], flags=CAD + ["--unwind", "33"], cap=120, rss=1.0)
H("k6_load", src="k_codec.c", tus=["storage"], flags=CAD + ["--unwind", "33"], cap=120, rss=1.0)

API_TUS = ["polyseed", "gf", "storage", "features", "dependency"]
H("k7_keygen", src="k_api.c", tus=API_TUS, c16=True, flags=CAD + ["--unwind", "65"], cap=180, rss=1.5)
H("k7_inject", src="k_api.c", tus=API_TUS, c16=True, flags=CAD + ["--unwind", "65"], cap=180, rss=1.5)
H("k8_crypt", src="k_api.c", tus=API_TUS, c16=True, flags=CAD + ["--unwind", "65"], cap=300, rss=2.0)
H("k9_create", src="k_api.c", tus=API_TUS, c16=True, flags=CAD + ["--unwind", "65"], cap=180, rss=1.5)
H("p7_load", src="k_api.c", tus=API_TUS, c16=True, flags=CAD + ["--unwind", "65"], cap=180, rss=1.5)
H("p7_store", src="k_api.c", tus=API_TUS, c16=True, flags=CAD + ["--unwind", "65"], cap=180, rss=1.5)
H("h_free", src="k_api.c", tus=API_TUS, c16=True, flags=CAD + ["--unwind", "65"], cap=120, rss=1.0)
H("h_inject", src="k_api.c", tus=API_TUS, c16=True, flags=CAD + ["--unwind", "65"], cap=120, rss=1.0)

P5_STRIP = {"polyseed": ["__CPROVER_file_local_polyseed_c_str_split",
                        "__CPROVER_file_local_dependency_h_utf8_nfkd_lazy"]}
for n in ("p5_decode", "p5_decode_explicit"):
    H(n, src="p_decode.c", tus=API_TUS, strip=P5_STRIP, c16=True, flags=CAD + ["--unwind", "%d" % 600], cap=240, rss=2.0)

# T1 / T3-lemma: unwind = longest string + a few (skip loops are bounded by it)
for n in ("t1_accept", "t1_safety", "t1_comparer", "t3_lemma", "t1_long"):
    H(n, src="t_cmp.c", tus=["lang"], flags=CAD, cap=300, rss=2.0)

H("t2_search", src="t_search.c", tus=["lang"], extra=["stubs/bsearch.c"], flags=CAD, cap=300, rss=2.0)

P6_STRIP = {"lang": ["__CPROVER_file_local_lang_c_lang_search"]}
for n in ("p6_auto", "p6_wipe"):
    H(n, src="p_lang.c", tus=["lang", "dependency", "langflags"], strip=P6_STRIP, c16=True, flags=CAD + ["--unwind", "40"], cap=600, rss=3.5)

H("p1_write", src="p_str.c", tus=["polyseed", "dependency"], flags=CAD + ["--unwind", "98"], cap=120, rss=1.0)
H("p3_lazy", src="p_str.c", tus=["dependency"], defs=["DEP_STR_MAX=1", "DEP_NFKD_PROBE=1"], flags=CAD, cap=300, rss=2.0)
H("p4_split", src="p_str.c", tus=["polyseed", "dependency"], flags=CAD, cap=600, rss=3.0)

for n in ("t4_table", "t4_distinct", "t4_selffind", "t4_meta", "t4_abbrevfind", "t4_selfcheck"):
    # concrete table walks without any assumption: no vacuity twin needed
    H(n, src="t_table.c", tus=["lang"], extra=["stubs/bsearch.c"], langdata=True, nowitness=True,
      flags=CAD + ["--unwind", "2050", "--object-bits", "14"], cap=600, rss=4.0)

P2_STRIP = {"polyseed": ["__CPROVER_file_local_polyseed_c_write_str"]}
H("p2_layout", src="p_encode.c", tus=API_TUS, strip=P2_STRIP, c16=True, flags=CAD + ["--unwind", "2050", "--object-bits", "12"], cap=600, rss=6.0)
H("c17_len", src="p_encode.c", tus=API_TUS, strip=P2_STRIP, langdata=True, c16=True, flags=CAD + ["--unwind", "2050", "--object-bits", "12"], cap=900, rss=8.0)

H("v_vectors", src="v_vectors.c", tus=API_TUS + ["lang", "lang_en"], extra=["stubs/bsearch.c"],
  flags=CAD + ["--unwind", "2050", "--object-bits", "13", "--max-field-sensitivity-array-size", "600"], cap=600, rss=3.0)

PROPS = {}


def I(hname, cfg="s", defs=(), **kw):
    d = {"hname": hname, "cfg": cfg, "defs": list(defs)}
    d.update(kw)
    return d


def UW(n):
    return ["--unwind", str(n)]


LANGS = ["en", "jp", "ko", "es", "fr", "it", "cs", "pt", "zh_s", "zh_t"]
RULE_OF = {"en": 1, "it": 1, "cs": 1, "pt": 1, "es": 3, "fr": 3, "jp": 0, "ko": 0, "zh_s": 0, "zh_t": 0}


# ---- instance groups ---------------------------------------------------
def g_k2():
    return [I("k1_mul2"), I("k2_eval"), I("k2_single"), I("k2_swap"), I("k2_unique"), I("k2_coin")]


def g_k3():
    return [I("k3_pack"), I("k3_unpack"), I("k3_round")]


def g_p1():
    return [I("p1_write", defs=["P1_OFF=0", "P1_SRC=34"]), I("p1_write", defs=["P1_OFF=23", "P1_SRC=34"])]


def str_size():
    """POLYSEED_STR_SIZE of the current tree (loop bounds of the string harnesses follow it)"""
    import re
    from . import core
    try:
        m = re.search(r"#define\s+POLYSEED_STR_SIZE\s+(\d+)", open(core.REPO + "/include/polyseed.h").read())
        return int(m.group(1))
    except Exception:
        return 544


def g_p3(tier, cfgs=("s",)):
    out = []
    n = str_size()
    for c in cfgs:
        out += [I("p3_lazy", cfg=c, defs=["P3_LEN=48"], flags=UW(51), cap=120, rss=0.5),
                I("p3_lazy", cfg=c, defs=["P3_PREFIX_REL=20"], flags=UW(n + 45), cap=400, rss=2.5),
                I("p3_lazy", cfg=c, defs=["P3_LEN=150", "P3_PREFIX_ABS=110"], flags=UW(153), cap=300, rss=1.5)]
        if tier == "thorough":
            out.append(I("p3_lazy", cfg=c, flags=UW(n + 45), cap=2400, rss=10.0))
    return out


P4B_QUICK = [(16, 4, 0, 0), (16, 3, 0, 0), (16, 3, 1, 0), (17, 0, 0, 0), (17, 2, 1, 0), (15, 1, 0, 0), (15, 2, 1, 2), (16, 0, 0, 1), (16, 2, 0, 3),
             (17, 0, 0, 3), (16, 0, 2, 0)]


def p4b_cells(tier):
    if tier == "quick":
        return P4B_QUICK
    cells = []
    for ntok in (15, 16, 17):
        for pat in (0, 1, 2, 3):
            for trail in (0, 1):
                for dbl in ((0, 2) if pat in (1, 3) else (1, 3)):
                    cells.append((ntok, pat, trail, dbl))
            cells.append((ntok, pat, 2, 0))
        cells.append((ntok, 4, 0, 0))
        cells.append((ntok, 4, 1, 0))
    return cells


def g_p4(tier, cfgs=("s",)):
    out = []
    for c in cfgs:
        if tier == "quick":
            out.append(I("p4_split", cfg=c, defs=["P4_LEN=12"], flags=UW(19), cap=300, rss=1.0))
        else:
            for n in range(0, 27):
                out.append(I("p4_split", cfg=c, defs=["P4_LEN=%d" % max(n, 1), "P4_EXACT=%d" % n], flags=UW(max(n, 16) + 3), cap=1800, rss=2.0))
        for (ntok, pat, trail, dbl) in p4b_cells(tier):
            out.append(I("p4_split", cfg=c, defs=["P4_LEN=80", "P4_NTOK=%d" % ntok, "P4_PATTERN=%d" % pat,
                                                  "P4_TRAIL=%d" % trail, "P4_DOUBLE=%d" % dbl],
                         flags=UW(83), cap=900, rss=4.5))
    return out


def g_p5():
    return [I("p5_decode"), I("p5_decode_explicit")]


def g_p6(cfgs=("s",)):
    return [I("p6_auto", cfg=c) for c in cfgs]


def t1_bounds(rule, tier, lemma=False):
    # (KMAX, WMAX): longest token / word bytes covered
    if rule == 0:
        return (36, 34)
    if rule == 1:
        return (12, 10)
    # thorough covers every Spanish/French word completely (longest: 12 bytes decomposed) and tokens of up
    # to 20 bytes: t1_accept 380-460 s / 3 GB, t3_lemma (three strings) 880-970 s / 4-7 GB (measured on a
    # loaded machine)
    if tier == "quick":
        return (10, 8)
    return (20, 12)


def g_t1(tier, cfgs=("s",), rules=(0, 1, 2, 3)):
    out = []
    for c in cfgs:
        out.append(I("t1_comparer", cfg=c, flags=UW(4), cap=60, rss=0.5))
        for r in rules:
            k, w = t1_bounds(r, tier)
            out.append(I("t1_accept", cfg=c, defs=["RULE=%d" % r, "KMAX=%d" % k, "WMAX=%d" % w], flags=UW(max(k, w) + 2), cap=1800, rss=2.0))
    return out


def g_t1_long(cfgs=("s",)):
    out = []
    for c in cfgs:
        for r in (0, 1):      # up to 290-byte tokens (beyond any 8-bit length)
            out.append(I("t1_long", cfg=c, defs=["RULE=%d" % r, "WMAX=10"], flags=UW(300), cap=900, rss=3.0))
        # (accent rules: the nested skip loops make tokens beyond ~14 bytes intractable -- 34 GB at 70 bytes --
        #  so long tokens for es/fr are outside the claim; seeded change C08-R4H2C lives there)
    return out


def g_t1_safety(cfgs=("s",)):
    out = []
    for c in cfgs:
        for r in (0, 1, 2, 3):
            k, w = (20, 16) if r < 2 else (8, 6)
            out.append(I("t1_safety", cfg=c, defs=["RULE=%d" % r, "KMAX=%d" % k, "WMAX=%d" % w, "ANY_BYTES=1"], flags=UW(max(k, w) + 2), cap=600, rss=2.0))
    return out


def g_t3_lemma(tier, cfgs=("s",), rules=(0, 1, 2, 3)):
    out = []
    for c in cfgs:
        for r in rules:
            k, w = t1_bounds(r, tier, lemma=True)
            out.append(I("t3_lemma", cfg=c, defs=["RULE=%d" % r, "KMAX=%d" % k, "WMAX=%d" % w], flags=UW(max(k, w) + 2), cap=3000, rss=8.0 if k > 14 else 4.0))
    return out


def g_t2(tier):
    # The kind of list is a constant of each instance (IS_SORTED in the harness), so symex never enters
    # the other branch of lang_search: the whole 2048-entry linear scan costs 90 s / 2.3 GB (it was
    # 21 min / 26 GB while the binary-search model was unwound to the scan's bound) and runs in both tiers.
    out = [I("t2_search", defs=["SORTED=1"], flags=UW(100), cap=240, rss=1.5),
           I("t2_search", defs=["SORTED=0"], flags=UW(2050), cap=900, rss=4.0)]
    return out


def g_t4(langs=LANGS, cfgs=("s",), selffind=False):
    out = []
    for c in cfgs:
        for l in langs:
            d = ["LID=" + l, "GOLD_HEADER=<words_%s.h>" % l]
            out.append(I("t4_table", cfg=c, defs=d, tus=["lang", "lang_" + l], cap=900, rss=2.0))
            if l.startswith("zh"):
                out.append(I("t4_distinct", cfg=c, defs=d + ["UNSORTED=1"], tus=["lang", "lang_" + l], cap=900, rss=2.0))
            if selffind and not l.startswith("zh"):
                # (the two unsorted lists are scanned linearly: 2048 x 1024 comparator calls do not finish;
                #  for them t4_distinct + t1 exact rule + t2 linear scan give the same fact)
                out.append(I("t4_selffind", cfg=c, defs=d, tus=["lang", "lang_" + l], cap=1800, rss=7.0))
                if RULE_OF[l] in (1, 3):
                    out.append(I("t4_abbrevfind", cfg=c, defs=d + ["ABBREV=1"], tus=["lang", "lang_" + l], cap=2400, rss=12.0))
    return out


def g_t4_meta(langs=LANGS):
    return [I("t4_meta", defs=["LID=" + l, "GOLD_HEADER=<words_%s.h>" % l], tus=["lang", "lang_" + l], cap=300, rss=1.0) for l in langs]


def g_c17(langs):
    return [I("c17_len", defs=["LID=" + l], cap=1200, rss=5.5) for l in langs]


def g_api():
    return [I("k7_keygen"), I("k7_inject"), I("k8_crypt"), I("k9_create"), I("p7_load"), I("p7_store"), I("h_free"), I("h_inject")]


def dedup(lst):
    seen, out = set(), []
    for d in lst:
        key = (d["hname"], d["cfg"], tuple(d["defs"]), tuple(d.get("flags", [])), tuple(d.get("tus", []) or []))
        if key not in seen:
            seen.add(key)
            out.append(d)
    return out


def instances_for(pid, tier):
    # the published-vector validation of spec + CBMC model runs with every property
    return dedup(PROPS[pid]["instances"](tier) + [I("v_vectors")])


def P(pid, instances, **kw):
    kw["instances"] = instances
    PROPS[pid] = kw


P("C01", lambda t: g_k2()[1:3] + g_k3() + g_p1() + [I("p2_layout"), I("p3_lazy", cfg="u", defs=["P3_LEN=48"], flags=UW(51), cap=120, rss=0.5)] + g_p3(t) + g_p4(t) + g_p5() + g_p6()
  + g_t1(t) + g_t2(t) + g_t3_lemma(t) + g_t4()
  # "encrypted or not": the encoder/decoder harnesses start from Inv-seeds, so the round trip of an
  # encrypted seed needs polyseed_crypt to preserve Inv (seeded change C01-R6B: CLEAR_MASK before the XOR)
  + [I("k8_crypt")])
P("C02", lambda t: g_k2() + g_p5() + g_p6() + [I("p7_load")] + g_t3_lemma(t) + g_t4())
P("C03", lambda t: g_k2()[1:2] + g_k3() + g_p1() + [I("p2_layout")] + g_t4_meta() + g_t4() + g_p5())
P("C04", lambda t: [I("k7_keygen"), I("k7_inject"), I("k8_crypt"), I("k9_create"), I("k4_birthday"), I("p7_load"), I("k7_keygen", cfg="sb")] + g_p5() + g_k3())
P("C05", lambda t: [I("k1_mul2"), I("k2_coin"), I("k2_eval"), I("p2_layout")] + g_p5() + g_p6() + g_t2(t))
# the codecs are byte-wise: re-run on CBMC's big-endian memory model (build configuration "sb")
P("C06", lambda t: [I("k6_store"), I("k6_load"), I("p7_load"), I("p7_store"), I("k6_store", cfg="sb"), I("k6_load", cfg="sb"), I("p7_load", cfg="sb")])
P("C07", lambda t: g_t4(selffind=(t == "thorough")) + g_t1(t) + g_t2(t) + g_t3_lemma(t))
P("C08", lambda t: g_t1(t) + g_t1_long() + g_t2(t) + g_t3_lemma(t) + g_t4(selffind=(t == "thorough")) + g_p3(t) + g_p5() + g_p6())
P("C09", lambda t: g_p4(t) + g_p5() + g_p6() + g_t1(t, rules=(0, 1)))
P("C10", lambda t: [I("k5_features"), I("k5_default"), I("k4_birthday"), I("k9_create"), I("p7_load"), I("p7_store"), I("k8_crypt"), I("h_inject")] + g_p5() + g_k3() + [I("k6_store")])
P("C11", lambda t: [I("k4_birthday"), I("k9_create"), I("k8_crypt"), I("p7_store")] + g_k3() + [I("k6_store")])
K8_LONG = dict(defs=["PWMAX=500", "PW_PREFIX=490", "DEP_PW_COPY=512", "DEP_STR_MAX=1", "K8_LIGHT=1"], flags=UW(515), cap=1800, rss=11.0)
K8_MID = dict(defs=["PWMAX=72", "PW_PREFIX=64", "DEP_PW_COPY=80", "DEP_STR_MAX=1", "K8_LIGHT=1"], flags=UW(83), cap=600, rss=2.0)
P("C12", lambda t: [I("k8_crypt"), I("k8_crypt", **K8_MID), I("k8_crypt", cfg="u"), I("p3_lazy", cfg="u", defs=["P3_LEN=48"], flags=UW(51), cap=120, rss=0.5),
                    I("k6_load"), I("k6_store"), I("p7_load"), I("p7_store")] + ([I("k8_crypt", defs=["PWMAX=20"], cap=900, rss=3.0), I("k8_crypt", **K8_LONG)] if t == "thorough" else [])
  + g_p3(t) + g_k2()[1:3] + g_k3())
P("C13", lambda t: g_api() + [I("k5_features"), I("k5_default"), I("k4_birthday"), I("p2_layout"), I("p6_auto")] + g_p5() + g_k3())
P("C14", lambda t: g_p3(t) + g_p4(t) + g_t1_safety() + g_t1_long() + g_t1(t) + g_p5() + g_p6() + [I("p7_load"), I("k8_crypt")])
P("C15", lambda t: [I("k9_create"), I("p7_load"), I("h_free"), I("h_inject")] + g_p5())
P("C16", lambda t: [I("k8_crypt"), I("k9_create"), I("p2_layout"), I("p7_load"), I("p7_store"), I("k7_keygen"), I("h_free"), I("p6_wipe")] + g_p5())
P("C17", lambda t: g_c17(["ko", "jp", "fr"] if t == "quick" else LANGS) + g_p3(t) + [I("p2_layout")] + g_p5())
P("C18", lambda t: [I("k9_create"), I("h_inject"), I("k7_keygen"), I("k8_crypt"), I("p7_load"), I("h_free"), I("p6_wipe"), I("p2_layout")] + g_p5())
def g_k_unsigned():
    # the codec / API layer is supposed to use no plain char: checked, not assumed
    return [I(h, cfg="u") for h in ("k3_pack", "k3_unpack", "k6_store", "k6_load", "k5_features", "k7_keygen", "k9_create", "p7_load", "p5_decode", "p5_decode_explicit", "k8_crypt")]


P("C19", lambda t: g_k_unsigned() + g_t1_long(cfgs=("s", "u")) + g_t1(t, cfgs=("s", "u")) + g_t3_lemma(t, cfgs=("s", "u")) + g_t4(cfgs=("s", "u")) + g_p3(t, cfgs=("s", "u"))
  + g_p6(cfgs=("s", "u")) + (g_p4(t, cfgs=("s",)) + g_p4("quick", cfgs=("u",)) if t == "thorough" else [I("p4_split", cfg=c, defs=["P4_LEN=12"], flags=UW(19), cap=300, rss=1.0) for c in ("s", "u")]))
P("C20", lambda t: g_api() + g_p5() + [I("p2_layout"), I("p6_auto")], level="other")


def post_c20(pid, tier, insts, workdir):
    """static-object inventory + native ThreadSanitizer stress run (DESIGN.md C20)"""
    import json, os
    from . import core, statics
    extra = {"coverage": {}, "violations": [], "inconclusive": []}
    builder = core.Builder(workdir)
    try:
        inv = statics.inventory(builder)
    except core.BuildError as e:
        extra["inconclusive"].append(("static inventory", str(e)))
        return extra
    mutable = {n: o for n, o in inv.items() if not o["const"]}
    new = {n: o for n, o in mutable.items() if n not in statics.KNOWN_STATICS}
    ts = statics.tsan_stress(workdir, runs=3 if tier == "quick" else 10)
    extra["coverage"]["static_mutable_objects"] = sorted(mutable)
    extra["coverage"]["static_objects_outside_frame"] = sorted(new)
    extra["coverage"]["tsan_stress"] = {k: v for k, v in ts.items() if k != "report"}
    extra["coverage"]["traces_validated_against_impl"] = ts.get("runs", 0)
    if ts["status"] == "race":
        path = os.path.join("replays", "C20-tsan-0.json")
        json.dump({"property": "C20", "harness": "tools/tsan_stress.c", "new_static_objects": list(new.values()),
                   "tsan": ts, "repo_head": core.sh(["git", "-C", core.REPO, "rev-parse", "HEAD"]).stdout.strip()},
                  open(os.path.join(core.VERIF, path), "w"), indent=1)
        extra["violations"].append("VIOLATION property=C20 replay=%s" % path)
        print("    tsan: %d data race reports, %d wrong results; static objects outside FRAME: %s" % (
            ts.get("races", 0), ts.get("wrong_results", 0), ", ".join(sorted(new)) or "none"))
    elif ts["status"] == "error":
        extra["inconclusive"].append(("tsan_stress", ts.get("detail", "")))
    elif new:
        extra["inconclusive"].append(("static inventory", "static-lifetime mutable object(s) not covered by the FRAME assertions: %s; "
                                      "the ThreadSanitizer stress run shows no race" % ", ".join(sorted(new))))
    return extra


PROPS["C20"]["post"] = post_c20


def post_unicode(pid, tier, insts, workdir):
    """Unicode assumptions validated on the real tables with unicodedata (not solver-decided);
    for C07 also the KNOWN-FINDING lines of the literal prefix clause"""
    import hashlib
    from . import core, langdata, driver
    extra = {"coverage": {}, "violations": [], "inconclusive": [], "known_lines": []}
    try:
        langs = core.Builder(workdir).langs()
    except core.BuildError as e:
        extra["inconclusive"].append(("language dump", str(e)))
        return extra
    n, fails = langdata.validate_unicode(langs)
    extra["coverage"]["unicode_validation"] = {
        "checked": n, "failures": fails[:20],
        "what": "every word NFKD-stable, NFKD(NFC(word)) == word, every separator NFKD-normalises to one ASCII space "
                "(Python unicodedata %s on the tables dumped from the current tree by a gcc build)" % __import__("unicodedata").unidata_version}
    if fails and pid == "C07":
        import json, os
        path = os.path.join("replays", "C07-unicode-0.json")
        json.dump({"property": "C07", "harness": "unicode validation (unicodedata)", "failures": fails[:200]},
                  open(os.path.join(core.VERIF, path), "w"), indent=1)
        extra["violations"].append("VIOLATION property=C07 replay=%s" % path)
        print("    unicode validation: %s" % "; ".join(fails[:3]))
    elif fails:
        extra["inconclusive"].append(("unicode validation", "; ".join(fails[:3])))
    if pid == "C07":
        known, _ = driver.load_known()
        for k in known:
            if k["property"] != "C07" or not (k["key"] or "").startswith("prefix-words-"):
                continue
            lid = k["key"][len("prefix-words-"):]
            L = [x for x in langs if x["id"] == lid]
            if not L:
                continue
            strip = bool(L[0]["has_accents"])
            ws = [bytes(c for c in w if c < 0x80) if strip else w for w in L[0]["words"]]
            present = sorted(set(a for a, b in langdata.prefix_pairs(ws)))
            listed = [w for w in k["text"].split() if w.startswith("words=")][0][6:].split(",")
            still = [w for w in listed if w.encode() in present]
            if still:
                extra["known_lines"].append(
                    "KNOWN-FINDING: property=C07 %s word list: %d listed three-letter words are prefixes of other words "
                    "(literal clause 'no word is a prefix of another'; frozen BIP-39 data): %s" % (
                        lid, len(still), ",".join(still)))
    return extra


for _p in ("C01", "C07", "C08", "C12", "C17"):
    PROPS[_p]["post"] = post_unicode
