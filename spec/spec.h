/* Reference model ("spec functions") for polyseed, written from README.md and
 * the statements in /verif/properties.jsonl -- not from the implementation.
 * Everything is over unsigned types, so the model does not depend on the
 * signedness of plain char.  Included by harnesses only (never -DNDEBUG).
 */
#ifndef VF_SPEC_H
#define VF_SPEC_H

#include <stddef.h>
#include <stdint.h>
#include <stdbool.h>

#define SP_NWORDS 16
#define SP_SECRET 19        /* bytes holding the 150-bit secret            */
#define SP_SECRET_BUF 32    /* secret buffer incl. zero padding            */
#define SP_EPOCH 1635768000ull
#define SP_STEP 2629746ull
#define SP_STRSIZE_PINNED 360

/* ---- GF(2^11), modulus x^11 + x^2 + 1 ------------------------------ */
static inline unsigned spec_mul2(unsigned x) {
    x <<= 1;
    if (x & 0x800u) x ^= 0x805u;
    return x;
}

/* value of the phrase polynomial at x = 2 */
static inline unsigned spec_eval(const unsigned c[SP_NWORDS]) {
    unsigned r = 0;
    for (int i = SP_NWORDS - 1; i >= 0; --i) r = spec_mul2(r) ^ c[i];
    return r;
}

/* ---- published bit layout ------------------------------------------ */
/* bit k (0 = first) of the 150-bit secret stream: bytes 0..17 MSB first, then
 * the low six bits of byte 18 MSB first (the two top bits are not part of it) */
static inline unsigned spec_secret_bit(const uint8_t s[SP_SECRET], unsigned k) {
    if (k < 144) return (s[k >> 3] >> (7 - (k & 7))) & 1u;
    return (s[18] >> (5 - (k - 144))) & 1u;
}

/* data word i (0..14) = phrase word i+2: 10 secret bits, then one bit of
 * (features << 10 | birthday), most significant first */
static inline unsigned spec_data_word(const uint8_t s[SP_SECRET], unsigned birthday,
    unsigned features, unsigned i) {
    unsigned w = 0;
    for (unsigned b = 0; b < 10; ++b) w = (w << 1) | spec_secret_bit(s, 10 * i + b);
    unsigned extra = ((features & 31u) << 10) | (birthday & 1023u);
    return (w << 1) | ((extra >> (14 - i)) & 1u);
}

static inline void spec_pack(const uint8_t s[SP_SECRET], unsigned birthday,
    unsigned features, unsigned c[SP_NWORDS]) {
    for (unsigned i = 0; i < 15; ++i) c[1 + i] = spec_data_word(s, birthday, features, i);
}

static inline void spec_unpack(const unsigned c[SP_NWORDS], uint8_t s[SP_SECRET_BUF],
    unsigned* birthday, unsigned* features) {
    for (int i = 0; i < SP_SECRET_BUF; ++i) s[i] = 0;
    unsigned extra = 0;
    for (unsigned i = 0; i < 15; ++i) {
        unsigned w = c[1 + i];
        extra = (extra << 1) | (w & 1u);
        for (unsigned b = 0; b < 10; ++b) {
            unsigned k = 10 * i + b;
            unsigned bit = (w >> (10 - b)) & 1u;
            if (k < 144) s[k >> 3] |= (uint8_t)(bit << (7 - (k & 7)));
            else s[18] |= (uint8_t)(bit << (5 - (k - 144)));
        }
    }
    *birthday = extra & 1023u;
    *features = extra >> 10;
}

/* check value of a seed (word 1 before the coin is applied to word 2) */
static inline unsigned spec_checksum(const uint8_t s[SP_SECRET], unsigned birthday,
    unsigned features) {
    unsigned c[SP_NWORDS];
    c[0] = 0;
    spec_pack(s, birthday, features, c);
    return spec_eval(c);
}

/* ---- storage image -------------------------------------------------- */
static inline void spec_store(const uint8_t s[SP_SECRET], unsigned birthday,
    unsigned features, unsigned checksum, uint8_t out[32]) {
    static const char hdr[8] = { 'P','O','L','Y','S','E','E','D' };
    for (int i = 0; i < 8; ++i) out[i] = (uint8_t)hdr[i];
    unsigned v = (features << 10) | birthday;
    out[8] = (uint8_t)(v & 0xff);
    out[9] = (uint8_t)(v >> 8);
    for (int i = 0; i < SP_SECRET; ++i) out[10 + i] = s[i];
    out[29] = 0xff;
    unsigned f = 0x7000u | checksum;
    out[30] = (uint8_t)(f & 0xff);
    out[31] = (uint8_t)(f >> 8);
}

/* format validity of a 32-byte image (first stage of loading) */
static inline bool spec_image_format_ok(const uint8_t b[32]) {
    static const char hdr[8] = { 'P','O','L','Y','S','E','E','D' };
    for (int i = 0; i < 8; ++i) if (b[i] != (uint8_t)hdr[i]) return false;
    if (b[9] & 0x80) return false;            /* bit 15 of features|birthday */
    if (b[28] & 0xC0) return false;           /* secret longer than 150 bits */
    if (b[29] != 0xff) return false;
    if ((b[31] & 0xF8) != 0x70) return false; /* footer 0x7000 | checksum(11) */
    return true;
}

/* ---- features ------------------------------------------------------- */
/* supported iff no bit outside (enabled user mask | encrypted bit) is set */
static inline bool spec_supported(unsigned features, unsigned enabled_mask) {
    return (features & ~((enabled_mask & 7u) | 16u) & 31u) == 0
        && (features & ~31u) == 0;
}

static inline unsigned spec_popcount3(unsigned m) {
    return (m & 1u) + ((m >> 1) & 1u) + ((m >> 2) & 1u);
}

/* ---- KDF salt for key generation ------------------------------------ */
static inline void spec_salt_key(unsigned coin, unsigned birthday, unsigned features,
    uint8_t salt[32]) {
    static const char tag[12] = { 'P','O','L','Y','S','E','E','D',' ','k','e','y' };
    for (int i = 0; i < 32; ++i) salt[i] = 0;
    for (int i = 0; i < 12; ++i) salt[i] = (uint8_t)tag[i];
    salt[12] = 0; salt[13] = 0xff; salt[14] = 0xff; salt[15] = 0xff;
    for (int i = 0; i < 4; ++i) {
        salt[16 + i] = (uint8_t)(coin >> (8 * i));
        salt[20 + i] = (uint8_t)(birthday >> (8 * i));
        salt[24 + i] = (uint8_t)(features >> (8 * i));
    }
}

static inline void spec_salt_mask(uint8_t salt[16]) {
    static const char tag[13] = { 'P','O','L','Y','S','E','E','D',' ','m','a','s','k' };
    for (int i = 0; i < 13; ++i) salt[i] = (uint8_t)tag[i];
    salt[13] = 0; salt[14] = 0xff; salt[15] = 0xff;
}

/* ---- word acceptance rules ------------------------------------------ */
/* The four rules of the property text, over unsigned bytes.
 *   RULE_EXACT            token equals word                        (jp ko zh)
 *   RULE_PREFIX           equal, or token is a prefix of >= 4 chars (en it cs pt)
 *   RULE_PREFIX_NOACCENT  the same on accent-stripped letters       (es fr)
 *   RULE_EXACT_NOACCENT   equality of accent-stripped letters       (flag
 *                         combination no shipped language uses)
 * "accent-stripped letters" of a decomposed (NFKD) string = its bytes < 0x80;
 * combining marks are the non-ASCII bytes.                                   */
enum { RULE_EXACT = 0, RULE_PREFIX = 1, RULE_EXACT_NOACCENT = 2, RULE_PREFIX_NOACCENT = 3 };

static inline int spec_rule_of_flags(bool has_prefix, bool has_accents) {
    return (has_prefix ? 1 : 0) | (has_accents ? 2 : 0);
}

/* copy the letters the rule looks at into out[] (NUL-terminated); returns count */
static inline unsigned spec_letters(int rule, const unsigned char* s, unsigned max,
    unsigned char* out) {
    unsigned n = 0;
    for (unsigned i = 0; i < max && s[i] != 0; ++i) {
        if ((rule & 2) && s[i] >= 0x80) continue;
        out[n++] = s[i];
    }
    out[n] = 0;
    return n;
}

/* acceptance on already-stripped letter strings */
static inline bool spec_accept_letters(int rule, const unsigned char* k, unsigned kn,
    const unsigned char* w, unsigned wn) {
    if (kn > wn) return false;
    for (unsigned i = 0; i < kn; ++i) if (k[i] != w[i]) return false;
    if (kn == wn) return true;                 /* the whole word              */
    return (rule & 1) && kn >= 4;              /* a prefix of >= 4 characters */
}

#endif
