#!/usr/bin/env python3
"""Self-test: apply a one-line mutation to the scratch worktree /tmp/selfmut (git -C /repo worktree add --detach /tmp/selfmut HEAD), run harnesses against it (VF_REPO), revert.
usage: selfmut.py <file> <old> <new> <harness...>   (old must occur; first occurrence unless @N suffix)"""
import subprocess, sys, os
f, old, new = sys.argv[1:4]
hs = sys.argv[4:]
WT = "/tmp/selfmut"
path = os.path.join(WT, f)
s = open(path).read()
n = 1
if old.startswith("@"):
    n = int(old[1]); old = old[2:]
idx = -1
for _ in range(n):
    idx = s.index(old, idx + 1)
s2 = s[:idx] + new + s[idx + len(old):]
open(path, "w").write(s2)
try:
    r = subprocess.run(["/verif/vf", "run"] + hs + ["--replay", "--nowitness"], capture_output=True, text=True,
                       env=dict(os.environ, VF_REPO=WT))
    out = r.stdout + r.stderr
    lines = [l for l in out.splitlines() if "FAILED" in l or "native replay" in l or "verdict" in l or "BUILD" in l]
    print("\n".join(l[:220] for l in lines[:12]) or "NOT DETECTED")
finally:
    subprocess.run(["git", "-C", WT, "checkout", "--", "."])
