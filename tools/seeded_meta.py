#!/usr/bin/env python3
"""Builds seeded/<id>/meta.json and seeded/README.md from the sub-agents' meta files, the
independent confirmation (tools/confirm_seeded.sh) and the trial logs (tools/try_seeded.sh)."""
import glob, json, os, re, sys
V = "/verif"
logs = sys.argv[1:] or sorted(glob.glob(V + "/.build/logs/seeded*.log"))
res = {}
for lf in logs:
    cur = None
    for line in open(lf):
        m = re.match(r"#### (C\d+)[ -](\w+)", line)
        if m:
            cur = "%s-%s" % m.groups(); res[cur] = {"checks": {}, "failing": []}; continue
        if cur is None: continue
        m = re.match(r"== (C\d+) rc=(\d+)", line)
        if m: res[cur]["checks"][m.group(1)] = int(m.group(2)); continue
        m = re.match(r"\s+failing: (.*?) @ (\S+) (\S+)", line)
        if m:
            t = "%s [%s]" % (m.group(1), m.group(3))
            if t not in res[cur]["failing"]: res[cur]["failing"].append(t)
        m = re.match(r"RESULT (C\d+) (\w+): (.*)", line)
        if m: res[cur]["result"] = m.group(3).strip()
rows = []
for d in sorted(glob.glob(V + "/seeded/C*-*")):
    sid = os.path.basename(d)
    prop = sid.split("-")[0]
    am = {}
    if os.path.exists(d + "/agent_meta.json"):
        try: am = json.load(open(d + "/agent_meta.json"))
        except Exception: am = {}
    conf = open(d + "/confirmation.txt").read().strip() if os.path.exists(d + "/confirmation.txt") else ""
    r = res.get(sid, {})
    rc = r.get("checks", {}).get(prop)
    meta = {
        "id": sid, "property": prop,
        "what_it_needs_to_manifest": am.get("what_it_needs_to_manifest", ""),
        "files_changed": am.get("files_changed", []),
        "origin": "written by a sub-agent that saw only the property text and a scratch worktree (nothing from /verif)",
        "confirmed": {"how": "tools/confirm_seeded.sh %s %s in scratch worktree /tmp/confirm: clean tree builds and demo prints PASS (exit 0); "
                             "with patch.diff applied the library builds, /repo's test suite ends 'All tests were successful', the demo exits non-zero" % (sid.split("-")[0], sid.split("-")[1]),
                      "observed": conf},
        "check_run": {"command": "git apply patch.diff in a scratch worktree W; VF_REPO=W ./vf check %s --tier quick (tools/try_seeded.sh)" % prop,
                      "exit_code": rc, "result": r.get("result", "not run yet"),
                      "failing_assertions": r.get("failing", [])},
        "caught": (rc == 1),
    }
    if sid == "C05-R5B":
        meta["history"] = ("missed by the quick tier when first tried (the linear scan was followed only up to entry 256) and caught "
                           "by the thorough tier in 1250 s; since round 6 the whole scan runs in the quick tier and catches it there")
    if sid == "C01-R6B":
        meta["history"] = ("MISSED by the C01 quick check as it stood (exit 0, 51 queries, 516 s): C01's instance list had no harness for "
                           "polyseed_crypt, although the property covers encrypted seeds and every encoder/decoder harness starts from a canonical "
                           "(Inv) seed. k8_crypt was added to C01's list because of it; run directly on the patched tree "
                           "(VF_REPO=<worktree> ./vf run k8_crypt --replay) it fails 'K8 result is a canonical seed (Inv)' and 'K8 secret XOR first 19 "
                           "mask bytes, top two bits of the 19th dropped' with a natively reproduced counterexample. The check_run above is the "
                           "repeated C01 trial with the completed list (exit 1, 395 s).")
    if sid == "C20-R6C":
        meta["origin"] += "; written by the C03 agent as its second change (a static phrase buffer in polyseed_encode): sequential behaviour is unchanged, so it is kept and tried as a C20 change"
    json.dump(meta, open(d + "/meta.json", "w"), indent=1)
    rows.append((sid, prop, meta["caught"], r.get("result", "?"), "; ".join(x.split(" [")[1].rstrip("]") for x in r.get("failing", [])[:1]) if r.get("failing") else "",
                 (am.get("what_it_needs_to_manifest", "") or "").replace("\n", " ")[:160]))
with open(V + "/seeded/README.md", "w") as f:
    f.write("# Seeded changes (realistic breakage written independently of /verif)\n\n")
    f.write("Each directory holds `patch.diff` (applies to /repo HEAD), the sub-agent's demonstration (`demo_*.c` / `demo_*.sh`: PASS on the\n"
            "clean tree, FAIL with the patch), `agent_meta.json`, `confirmation.txt` (my own confirmation run) and `meta.json`.\n"
            "None of these is ever committed to /repo. To try one: `git -C /repo apply seeded/<id>/patch.diff; ./vf check <Cxx>; git -C /repo checkout -- .`\n"
            "(or, without touching /repo, `tools/try_seeded.sh <scratch worktree> seeded/<id>/patch.diff <Cxx>`).\n\n")
    f.write("| id | property | caught by quick check | result | first failing harness | needs |\n|---|---|---|---|---|---|\n")
    for r in rows:
        f.write("| %s | %s | %s | %s | %s | %s |\n" % (r[0], r[1], "yes" if r[2] else ("inconclusive (exit 2)" if "INCONCLUSIVE" in str(r[3]) else "NO"), r[3], r[4], r[5]))
    f.write("\nHistory: C13-A (a static cache of the last detected language) passed every check when it was first tried,\n"
            "because each harness made a single call from a fresh library; the history prefix (an arbitrary earlier call of\n"
            "the same operation, DESIGN.md section 4) was added because of it, and C13 now includes p6_auto. C09-A needed a\n"
            "count-boundary cell that the quick tier did not have yet (17 tokens with a doubled separator after the 16th);\n"
            "it was added before that trial ran. Everything else in round 1 was caught by the checks as they stood.\n"
            "Rounds 2 and 3 (ids with R2/R3): the table shows the result of the final run of each change. Changes that were missed\n"
            "when first tried, and what was done: C09-R2C (token texts made symbolic in p6_auto), C13-R2B (history call gets its own\n"
            "dependency answers), C16-R2A (wipe-after-last-use ordering), C17-R2Cx (normalised strings of any length in p5; p5 added\n"
            "to C17), C02-R2A and C05-R3G1A (language detection p6_auto added to the C02 and C05 checks: the harness caught them, the\n"
            "property's instance list did not include it), C04-R3G2C (k4_birthday added to C04: k9_create alone times out on the\n"
            "64-bit division). C03-R3G1B changes the signature of the static write_str, which the encoder harness replaces by a stub:\n"
            "the harness no longer links and the check answers inconclusive (exit 2) -- not a detection, not a silent pass either.\n"
            "Round 4 (ids with R4) is different in kind: those four agents were TOLD how the checker works (bounded lengths, one\n"
            "function at a time, stubs, golden lists) and asked for what it would still miss, so they are not independent of /verif.\n"
            "Built in because of them: the comparator passed to the word lookup must be the one the language's own flags select\n"
            "(p6_auto), tokens of up to 290 bytes for the exact/prefix rules (t1_long), by-value struct parameters count as\n"
            "temporaries (C16), the codec/API harnesses also run under -funsigned-char (C19), the injected NFKD must receive the whole\n"
            "string (p3_lazy), a long search key (t2_search), C16_CHECK for polyseed_store. Still outside, as the table shows: a\n"
            "16-bit uint_fast16_t platform (C06-R4H1C: only the x86-64 data model is modelled), misaligned 16/64-bit accesses through\n"
            "cast pointers on little-endian (C14-R4H4C; the big-endian half of C06-R4H3B is caught by the --big-endian re-run), tokens\n"
            "longer than 14 bytes under the accent-insensitive rules (C08-R4H2C), and changes that make a harness itself blow up\n"
            "(C12-R4H1A: a 544-byte copy loop inside the normalisation fast path -> out of memory -> inconclusive).\n"
            "Round 5 (ids with R5; uninformed agents again, three changes each for C01 C03 C05 C06 C10 C12 C15 C18, told only what\n"
            "earlier rounds had tried): 23 of 24 caught by the quick check once the instance lists were completed (C18 now includes the\n"
            "wipe harnesses, C12 the storage harnesses and the unsigned-char build, C10 k4_birthday, C03 the word tables and the decoder\n"
            "skeletons, C05 the search harness). C05-R5B -- the linear scan of the two unsorted lists unrolled four times and never\n"
            "looking at the last four entries -- was missed by the quick tier while that followed the linear scan only up to entry 256\n"
            "(caught by the thorough tier then; see round 6).\n"
            "Round 6 (ids with R6; twenty uninformed agents -- one per property --, two changes each, asked for breakage that needs something specific to\n"
            "manifest: a rare value, a boundary length, one language, hidden state between calls, a fault at one exit, two cooperating\n"
            "sites): 39 of 40 caught by the quick check of their property as it stood, each with a natively reproduced counterexample;\n"
            "C01-R6B (CLEAR_MASK applied before the XOR in polyseed_crypt) passed the C01 check, whose instance list had no polyseed_crypt harness --\n"
            "k8_crypt (which fails on it, reproduced natively) was added to C01 because of it, and the repeated C01 trial reports the violation\n"
            "(C20-R6C is the C03 agent's second change -- a static phrase buffer in polyseed_encode, a thread-safety defect -- and was run\n"
            "against C20). In the same round the whole linear scan of t2_search moved into the quick tier (the list kind became a\n"
            "compile-time constant of the instance instead of an assumption: 90 s instead of 21 min), so C05-R5B is now caught by the quick\n"
            "check as well.\n"
            "\nBehaviour-preserving refactorings (12 patches from three further sub-agents, `seeded/benign/`) are the opposite test:\n"
            "every relevant quick check must stay quiet on them (results in `seeded/benign/README.md`).\n")
print("%d seeded, %d caught" % (len(rows), sum(1 for r in rows if r[2])))
