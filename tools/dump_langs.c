/* Prints the registered languages of the library under /repo as JSON
 * (names, flags, separator, all 2048 words as hex).  Built and run by the
 * driver on every run against the current working tree (auxiliary data for
 * the length tables and the Unicode assumption validation).                 */
#include <stdio.h>
#include <string.h>
#include "polyseed.h"
#include "lang.h"

static void hex(const char* s) {
    putchar('"');
    for (; *s; ++s) printf("%02x", (unsigned char)*s);
    putchar('"');
}

int main(void) {
    int n = polyseed_get_num_langs();
    printf("[");
    for (int l = 0; l < n; ++l) {
        const polyseed_lang* L = polyseed_get_lang(l);
        printf("%s{\"name\":", l ? "," : ""); hex(L->name);
        printf(",\"name_en\":"); hex(L->name_en);
        printf(",\"separator\":"); hex(L->separator);
        printf(",\"is_sorted\":%d,\"has_prefix\":%d,\"has_accents\":%d,\"compose\":%d,\"words\":[",
            L->is_sorted, L->has_prefix, L->has_accents, L->compose);
        for (int i = 0; i < POLYSEED_LANG_SIZE; ++i) { if (i) putchar(','); hex(L->words[i]); }
        printf("]}\n");
    }
    printf("]\n");
    return 0;
}
