#!/bin/bash
# usage: try_seeded.sh <worktree> <patch> <property>...   -- apply a seeded change in a scratch
# worktree, run the named checks against it (VF_REPO), revert the worktree
wt=$1; patch=$2; shift 2
git -C "$wt" checkout -q -- . && git -C "$wt" apply "$patch" || { echo "patch does not apply"; exit 3; }
for p in "$@"; do
  VF_REPO=$wt /verif/vf check $p --tier ${TIER:-quick} > /tmp/try_$$.log 2>&1; rc=$?
  echo "== $p rc=$rc"
  grep -E "^    failing" /tmp/try_$$.log | sort -u | cut -c1-220 | head -8
  grep -E "^(VIOLATION|KNOWN|INCONCLUSIVE|RESULT)" /tmp/try_$$.log | cut -c1-220 | head -8
done
rm -f /tmp/try_$$.log
git -C "$wt" checkout -q -- .
