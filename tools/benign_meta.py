#!/usr/bin/env python3
"""Copies the behaviour-preserving refactorings (sub-agents, /tmp/ben/<set>/out) to seeded/benign/ and writes the
result table from the trial logs (.build/logs/benign*.log): every check must stay quiet (exit 0) on them."""
import glob, os, re, shutil
V = "/verif"
os.makedirs(V + "/seeded/benign", exist_ok=True)
notes = {}
for s in ("1", "2", "3"):
    d = "/tmp/ben/%s/out" % s
    if not os.path.isdir(d): continue
    for f in sorted(glob.glob(d + "/patch_*.diff")):
        k = re.search(r"patch_(\d)", f).group(1)
        shutil.copy(f, V + "/seeded/benign/set%s-%s.diff" % (s, k))
    if os.path.exists(d + "/notes.md"):
        shutil.copy(d + "/notes.md", V + "/seeded/benign/set%s-notes.md" % s)
res = {}
for lf in sorted(glob.glob(V + "/.build/logs/benign*.log")):
    cur = None
    for line in open(lf):
        if line.startswith("####"):
            m = re.match(r"#### BEN(\d) (\d)", line)
            cur = ("set%s-%s" % m.groups()) if m else None      # (superseded runs are marked BENxOLD)
            if cur: res.setdefault(cur, {})
            continue
        m = re.match(r"== (C\d+) rc=(\d+)", line)
        if m and cur: res[cur][m.group(1)] = int(m.group(2))
with open(V + "/seeded/benign/README.md", "w") as f:
    f.write("# Behaviour-preserving refactorings (the checks must stay quiet)\n\n"
            "Twelve patches written by three sub-agents that saw only the library (nothing from /verif) and were asked for realistic,\n"
            "strictly behaviour-preserving refactorings (each verified by them with a randomized differential test against the\n"
            "unmodified library, both char signednesses). Each was applied in a scratch worktree and the listed quick checks were run\n"
            "(`tools/try_seeded.sh`); exit code 0 = property holds, 1 = VIOLATION (would be a false alarm), 2 = inconclusive.\n\n"
            "| patch | what it does | check results (exit codes) |\n|---|---|---|\n")
    for sid in sorted(res):
        s, k = re.match(r"set(\d)-(\d)", sid).groups()
        note = ""
        np = V + "/seeded/benign/set%s-notes.md" % s
        if os.path.exists(np):
            lines = [l.strip() for l in open(np) if l.strip() and not l.startswith("#")]
            cand = [l for l in lines if re.search(r"patch_?%s|^%s[.)]|\b%s\b" % (k, k, k), l[:20])]
            note = (cand[0] if cand else "")[:200].replace("|", "/")
        f.write("| %s | %s | %s |\n" % (sid, note, ", ".join("%s:%d" % (p, rc) for p, rc in sorted(res[sid].items()))))
    bad = [(sid, p) for sid in res for p, rc in res[sid].items() if rc == 1]
    f.write("\nFalse alarms (exit 1) with the checks as they are now: %s\n" % (", ".join("%s on %s" % x for x in bad) if bad else "none"))
    f.write("\nHistory: the first run of set1-1 (the two decoders merged into one helper) raised a false alarm in seven checks, all from\n"
            "one assertion: the call-graph closure of the C16 wipe obligations followed the helper into polyseed_phrase_decode, which the\n"
            "decoder harness replaces by a stub, and demanded a wipe of its idx[] array. The stop set of the closure was corrected\n"
            "(vflib/core.py) and the patch re-run: quiet.\n")
print(res)
