#!/bin/bash
# usage: confirm_seeded.sh <prop> <variant> [root=/tmp/mut] [seeded id=<prop>-<variant>]   e.g. C05 A
# Independently confirms a seeded change from /tmp/mut/<prop>/out in the scratch worktree /tmp/confirm:
#  clean tree: demo PASS;  patched: builds, repo test-suite passes, demo FAIL.  On success copies it to /verif/seeded/<prop>-<variant>/
p=$1; v=$2; root=${3:-/tmp/mut}; sid=${4:-$p-$v}; src=$root/$p/out; wt=/tmp/confirm
[ -d $wt ] || git -C /repo worktree add -q --detach $wt HEAD
cd $wt && git checkout -q -- . && rm -rf out _b && mkdir out && cp $src/*_$v.* $src/*_${v}_* out/ 2>/dev/null
run_demo() {
  if [ -f out/demo_$v.sh ]; then sh out/demo_$v.sh > out/demo.log 2>&1; echo $?
  else gcc -Iinclude -DPOLYSEED_STATIC out/demo_$v.c _b/libpolyseed.a -lutf8proc -o out/demo_$v > out/demo.log 2>&1 && ./out/demo_$v >> out/demo.log 2>&1; echo $?; fi
}
build() { cmake -S . -B _b -G Ninja >/dev/null 2>&1 && cmake --build _b >/dev/null 2>&1; }
build || { echo "$p $v: clean build failed"; exit 1; }
rc_clean=$(run_demo); clean_tail=$(tail -1 out/demo.log)
git apply out/patch_$v.diff || { echo "$p $v: patch does not apply"; exit 1; }
build || { echo "$p $v: patched build failed"; git checkout -q -- .; exit 1; }
tests=$(./_b/polyseed-tests 2>&1 | tail -1)
rc_mut=$(run_demo); mut_tail=$(tail -1 out/demo.log)
git checkout -q -- .
ok=no
if [ "$rc_clean" = "0" ] && [ "$rc_mut" != "0" ] && [ "$tests" = "All tests were successful" ]; then ok=yes; fi
echo "$p $v: clean demo rc=$rc_clean ($clean_tail) | patched: tests='$tests' demo rc=$rc_mut ($mut_tail) => confirmed=$ok"
if [ $ok = yes ]; then
  d=/verif/seeded/$sid; mkdir -p $d
  cp out/patch_$v.diff $d/patch.diff
  for f in out/demo_$v.* out/demo_${v}_*; do [ -f $f ] && cp $f $d/; done
  cp out/meta_$v.json $d/agent_meta.json 2>/dev/null
  echo "clean: rc=$rc_clean $clean_tail; patched: tests: $tests; demo rc=$rc_mut $mut_tail" > $d/confirmation.txt
fi
rm -rf _b out
