/* Native confirmation driver for C20 candidates: N threads, each working on its
 * own seeds through the public API of the real library (compiled together with
 * this file under -fsanitize=thread).  Exit 0 = no wrong result (data races are
 * reported by ThreadSanitizer on stderr and turn the exit status to 66).       */
#include <polyseed.h>
#include <pthread.h>
#include <stdio.h>
#include <stdlib.h>
#include <string.h>

#define NT 8
#define ITER 150

static __thread unsigned tl_rng;

static void dep_rand(void* p, size_t n) {
    unsigned char* b = p;
    for (size_t i = 0; i < n; ++i) { tl_rng = tl_rng * 1103515245u + 12345u; b[i] = (unsigned char)(tl_rng >> 16); }
}
static void dep_kdf(const uint8_t* pw, size_t pwlen, const uint8_t* salt, size_t saltlen, uint64_t it,
    uint8_t* key, size_t keylen) {
    unsigned h = 2166136261u;
    for (size_t i = 0; i < pwlen; ++i) h = (h ^ pw[i]) * 16777619u;
    for (size_t i = 0; i < saltlen; ++i) h = (h ^ salt[i]) * 16777619u;
    (void)it;
    for (size_t i = 0; i < keylen; ++i) { h = h * 1103515245u + 12345u; key[i] = (uint8_t)(h >> 16); }
}
static void dep_zero(void* const p, const size_t n) { volatile unsigned char* b = p; for (size_t i = 0; i < n; ++i) b[i] = 0; }
static size_t dep_nfc(const char* s, polyseed_str out) { size_t n = strlen(s); if (n >= POLYSEED_STR_SIZE) n = POLYSEED_STR_SIZE - 1; memcpy(out, s, n); out[n] = 0; return n; }
static size_t dep_nfkd(const char* s, polyseed_str out) {
    /* only the ideographic space needs mapping for round trips of library output */
    size_t n = 0;
    while (*s && n < POLYSEED_STR_SIZE - 1) {
        if ((unsigned char)s[0] == 0xE3 && (unsigned char)s[1] == 0x80 && (unsigned char)s[2] == 0x80) { out[n++] = ' '; s += 3; }
        else out[n++] = *s++;
    }
    out[n] = 0;
    return n;
}
static uint64_t dep_time(void) { return 1700000000ull; }

static int g_bad;

static void* worker(void* arg) {
    int id = (int)(long)arg;
    tl_rng = 777u * (unsigned)(id + 1);
    int nl = polyseed_get_num_langs();
    for (int it = 0; it < ITER; ++it) {
        polyseed_data* s = NULL;
        if (polyseed_create(0, &s) != POLYSEED_OK) { __sync_fetch_and_add(&g_bad, 1); continue; }
        polyseed_storage st0, st1;
        polyseed_store(s, st0);
        const polyseed_lang* lang = polyseed_get_lang((it + id) % nl);
        static __thread polyseed_str phrase;
        polyseed_coin coin = (polyseed_coin)((it * 37 + id) % 2048);
        polyseed_encode(s, lang, coin, phrase);
        polyseed_data* d = NULL; const polyseed_lang* dl = NULL;
        polyseed_status r = polyseed_decode(phrase, coin, &dl, &d);
        if (r == POLYSEED_OK) { polyseed_store(d, st1); if (memcmp(st0, st1, sizeof st0)) __sync_fetch_and_add(&g_bad, 1); polyseed_free(d); }
        else if (r != POLYSEED_ERR_MULT_LANG) __sync_fetch_and_add(&g_bad, 1);
        d = NULL;
        r = polyseed_decode(phrase, coin, NULL, &d);       /* language output is optional */
        if (r == POLYSEED_OK) polyseed_free(d); else if (r != POLYSEED_ERR_MULT_LANG) __sync_fetch_and_add(&g_bad, 1);
        (void)polyseed_get_lang_name(lang); (void)polyseed_get_lang_name_en(lang);
        d = NULL;
        if (polyseed_decode_explicit(phrase, coin, lang, &d) != POLYSEED_OK) __sync_fetch_and_add(&g_bad, 1);
        else { polyseed_store(d, st1); if (memcmp(st0, st1, sizeof st0)) __sync_fetch_and_add(&g_bad, 1); polyseed_free(d); }
        d = NULL;
        if (polyseed_load(st0, &d) != POLYSEED_OK) __sync_fetch_and_add(&g_bad, 1);
        else {
            uint8_t k0[32], k1[32];
            polyseed_keygen(s, coin, 32, k0); polyseed_keygen(d, coin, 32, k1);
            if (memcmp(k0, k1, 32)) __sync_fetch_and_add(&g_bad, 1);
            polyseed_crypt(d, "pw"); polyseed_crypt(d, "pw");
            polyseed_store(d, st1); if (memcmp(st0, st1, sizeof st0)) __sync_fetch_and_add(&g_bad, 1);
            (void)polyseed_get_birthday(d); (void)polyseed_get_feature(d, 7); (void)polyseed_is_encrypted(d);
            polyseed_free(d);
        }
        polyseed_free(s);
    }
    return NULL;
}

int main(void) {
    polyseed_dependency deps = { .randbytes = dep_rand, .pbkdf2_sha256 = dep_kdf, .memzero = dep_zero,
        .u8_nfc = dep_nfc, .u8_nfkd = dep_nfkd, .time = dep_time, .alloc = NULL, .free = NULL };
    polyseed_inject(&deps);
    polyseed_enable_features(0);
    pthread_t th[NT];
    for (long i = 0; i < NT; ++i) pthread_create(&th[i], NULL, worker, (void*)i);
    for (int i = 0; i < NT; ++i) pthread_join(th[i], NULL);
    printf("tsan_stress: %d wrong results\n", g_bad);
    return g_bad ? 1 : 0;
}
